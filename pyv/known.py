"""Access to /verif/known_findings.json (committed; never written at run time)."""
import json, os, functools
VERIF = os.path.dirname(os.path.dirname(os.path.abspath(__file__)))


@functools.lru_cache(maxsize=None)
def _load():
    p = os.path.join(VERIF, 'known_findings.json')
    if not os.path.exists(p):
        return []
    return json.load(open(p)).get('findings', [])


@functools.lru_cache(maxsize=None)
def open_ids(pid):
    """ids of the findings of property `pid` that are listed as open"""
    return frozenset(e['id'] for e in _load() if e['property'] == pid and e.get('status') == 'open')
