"""Client for the `sut` adapter process (JSON lines over pipes) with a wall-clock watchdog.

A watchdog expiry is *inconclusive* (exit 2), never a violation. If the adapter dies
(abort / stack overflow / SIGSEGV) the request is replayed alone in a fresh process; a second
death is reported to the caller as {"crash": ...} — the property decides what that means.
"""
import json, os, select, subprocess, signal
from . import build


class Inconclusive(Exception):
    pass


class Sut:
    def __init__(self, cfg='A', timeout=120.0, stack_mb=None):
        self.cfg = cfg
        self.path = build.bin_path(cfg)
        self.timeout = timeout
        self.stack_mb = stack_mb
        self.p = None
        self.restarts = 0

    def _start(self):
        env = dict(os.environ)
        if self.stack_mb:
            env['SUT_STACK_MB'] = str(self.stack_mb)
        self.p = subprocess.Popen([self.path], stdin=subprocess.PIPE, stdout=subprocess.PIPE, stderr=subprocess.DEVNULL, env=env)
        self.buf = b''

    def close(self):
        if self.p is not None:
            try:
                self.p.stdin.close()
                if os.environ.get('LLVM_PROFILE_FILE'):
                    # (selftest/coverage.sh: let the adapter leave by itself, so that it writes its execution counts)
                    try:
                        self.p.wait(timeout=10)
                    except Exception:
                        pass
                self.p.kill()
                self.p.wait()
            except Exception:
                pass
            self.p = None

    def _readline(self):
        fd = self.p.stdout.fileno()
        while b'\n' not in self.buf:
            r, _, _ = select.select([fd], [], [], self.timeout)
            if not r:
                self.close()
                raise Inconclusive('adapter watchdog: no reply within %.0fs' % self.timeout)
            chunk = os.read(fd, 1 << 20)
            if not chunk:
                return None
            self.buf += chunk
        line, _, self.buf = self.buf.partition(b'\n')
        return line

    def _roundtrip(self, payload):
        if self.p is None:
            self._start()
        try:
            self.p.stdin.write(payload)
            self.p.stdin.flush()
        except (BrokenPipeError, OSError):
            return None
        return self._readline()

    def raw(self, req):
        payload = (json.dumps(req) + '\n').encode()
        line = self._roundtrip(payload)
        if line is None:
            # adapter died: retry once alone in a fresh process
            self.close()
            self.restarts += 1
            line = self._roundtrip(payload)
            if line is None:
                rc = self.p.poll() if self.p else None
                self.close()
                return {'crash': 'adapter process died twice on this request', 'returncode': rc}
        return json.loads(line)

    def call(self, op, **kw):
        kw['op'] = op
        return self.raw(kw)

    def batch(self, reqs):
        if not reqs:
            return []
        r = self.raw({'batch': reqs})
        if isinstance(r, dict) and 'crash' in r:
            # find the culprit one by one
            return [self.raw(q) for q in reqs]
        return r
