"""Engine shared by all properties: Hypothesis wiring, worker pool, known findings,
evidence files, replay files, exit codes (DESIGN.md 3.2, 3.3).

Exit codes: 0 = held on everything explored (KNOWN-FINDING lines allowed);
1 = unlisted violation (VIOLATION line); 2 = inconclusive (build failure, watchdog, ...).
"""
import hashlib, importlib, json, multiprocessing as mp, os, sys, time, traceback, collections

from . import build
from .choice import ChoiceStream
from .sut import Sut, Inconclusive

VERIF = os.path.dirname(os.path.dirname(os.path.abspath(__file__)))
NWORKERS = int(os.environ.get('VERIF_WORKERS', '16'))
SURVEY = bool(os.environ.get('VERIF_SURVEY'))  # development aid: tally failure signatures, do not stop


class Failure:
    """An oracle verdict: `signature` is a short stable class name of the failure (used for
    shrinking towards the *same* failure and for matching known findings), `detail` is data."""

    def __init__(self, signature, **detail):
        self.signature = signature
        self.detail = detail

    def to_json(self):
        return {'signature': self.signature, 'detail': self.detail}

    def __repr__(self):
        return 'Failure(%s, %s)' % (self.signature, json.dumps(self.detail, default=str)[:600])


class PropertyViolation(Exception):
    pass


def case_hash(case):
    return hashlib.sha1(json.dumps(case, sort_keys=True, default=str).encode()).digest()[:8]


class Ctx:
    """Per-worker context."""

    def __init__(self, prop, tier, seed, widx, nworkers):
        self.prop = prop
        self.tier = tier
        self.seed = seed
        self.widx = widx
        self.nworkers = nworkers
        self._suts = {}
        self.counters = collections.Counter()
        self.evaluations = 0
        self.nontrivial = set()
        self.samples = []
        self.known = collections.Counter()
        self.violations = []  # (case, failure)
        self.counting = True
        self.max_samples = 4
        self.survey = {}
        self.sets = {}   # name -> set, merged over workers by union (e.g. LR productions reduced)

    def sut(self, cfg=None, **kw):
        cfg = cfg or self.prop.configs[0]
        s = self._suts.get(cfg)
        if s is None:
            s = self._suts[cfg] = Sut(cfg, **kw)
        return s

    def close(self):
        for s in self._suts.values():
            s.close()

    def count(self, key, n=1):
        if self.counting:
            self.counters[key] += n

    def run_case(self, case):
        """Run the oracle on one case; returns an *unlisted* Failure or None."""
        prop = self.prop
        if self.counting:
            self.evaluations += 1
            if prop.nontrivial(case, self):
                h = case_hash(case)
                if h not in self.nontrivial:
                    self.nontrivial.add(h)
                    if len(self.samples) < self.max_samples:
                        self.samples.append(prop.sample_repr(case))
        fs = prop.check(case, self)
        if fs is None:
            return None
        # a check may report several failures of one case: listed findings are tallied, the first unlisted one is returned
        for f in (fs if isinstance(fs, list) else [fs]):
            kid = prop.known(case, f, self)
            if kid is None:
                return f
            if self.counting:
                self.known[kid] += 1
        return None


class Property:
    id = 'C00'
    configs = ('A',)
    level = 'exploration'
    rule = ''
    bytes_per_case = 512
    assumptions = []

    def budget(self, tier):
        """number of Hypothesis examples over all workers"""
        return 2000 if tier == 'quick' else 50000

    def explicit_cases(self, ctx):
        """deterministic cases (regress files, enumerations); sharded over workers by index"""
        return ()

    def gen(self, cs, ctx):
        raise NotImplementedError

    def check(self, case, ctx):
        raise NotImplementedError

    def nontrivial(self, case, ctx):
        return True

    def sample_repr(self, case):
        return case

    def known(self, case, failure, ctx):
        """id of the open known finding this (case, failure) belongs to, else None"""
        return None

    def reduce(self, case, failure, ctx):
        """optional structural reducer; must keep failure.signature"""
        return case, failure

    def extra_evidence(self, merged):
        return {}

    fuzz_target = None

    def fuzz_seeds(self):
        """initial corpus files (bytes) for the property's fuzz target"""
        return ()

    def worker_end(self, ctx):
        """optional per-worker step after generation (e.g. collect hook statistics into ctx.sets)"""

    def post(self, ctx):
        """optional whole-run step after generation in worker 0 (returns list of (case, failure))"""
        return []


def load_prop(pid):
    m = importlib.import_module('pyv.props.' + pid.lower())
    return m.PROP


def load_known(pid):
    path = os.path.join(VERIF, 'known_findings.json')
    if not os.path.exists(path):
        return []
    data = json.load(open(path))
    return [e for e in data.get('findings', []) if e.get('property') == pid]


def _hyp_seed(seed, pid, widx):
    h = hashlib.sha256(('%d/%s/%d' % (seed, pid, widx)).encode()).digest()
    return int.from_bytes(h[:8], 'big')


def _worker(args):
    pid, tier, seed, widx, nworkers, nexamples = args
    t0 = time.time()
    prop = load_prop(pid)
    ctx = Ctx(prop, tier, seed, widx, nworkers)
    res = {'widx': widx, 'inconclusive': None, 'error': None}
    try:
        # 1. replay tier (saved inputs: /verif/regress/<ID>/*.json) then explicit / enumerated cases, sharded
        import glob as _glob, itertools as _it
        saved = []
        for rp in ([] if os.environ.get('VERIF_NO_REGRESS') else sorted(_glob.glob(os.path.join(VERIF, 'regress', pid, '*.json')))):  # (selftest aid)
            try:
                d = json.load(open(rp))
                saved.append(d['case'] if 'case' in d else d)
            except (ValueError, KeyError):
                pass
        ctx.count('regress_cases', len(saved) if widx == 0 else 0)
        n_explicit = 0
        for i, case in enumerate(_it.chain(saved, prop.explicit_cases(ctx))):
            if i % nworkers != widx:
                continue
            if i >= len(saved):
                n_explicit += 1
            f = ctx.run_case(case)
            if f is not None and SURVEY:
                ctx.count('SURVEY ' + f.signature)
                ctx.survey.setdefault('SURVEY ' + f.signature, (case, f.to_json()))
            elif f is not None and len(ctx.violations) < 3:
                ctx.violations.append((case, f))
        ctx.count('explicit_cases_run', n_explicit)
        # 2. generated cases
        if nexamples > 0 and not ctx.violations:
            _run_hypothesis(prop, ctx, nexamples, _hyp_seed(seed, pid, widx))
        try:
            prop.worker_end(ctx)
        except Exception:
            pass
        if widx == 0 and not ctx.violations:
            for case, f in prop.post(ctx):
                ctx.violations.append((case, f))
    except Inconclusive as e:
        res['inconclusive'] = str(e)
    except Exception:
        res['error'] = traceback.format_exc()
    finally:
        ctx.close()
    res.update(evaluations=ctx.evaluations, nontrivial=list(ctx.nontrivial), samples=ctx.samples,
               counters=dict(ctx.counters), known=dict(ctx.known),
               violations=[(c, f.to_json()) for c, f in ctx.violations], wall=time.time() - t0, survey=ctx.survey,
               sets={k: sorted(v) for k, v in ctx.sets.items()})
    return res


def _run_hypothesis(prop, ctx, nexamples, hseed):
    from hypothesis import given, settings, seed as hseed_deco, strategies as st, HealthCheck, Phase
    import hypothesis.internal.conjecture.engine as _ce
    # a failing case is already a violation; bound the time spent on making it smaller (default 300 s per worker)
    _ce.MAX_SHRINKING_SECONDS = 60 if ctx.tier == 'quick' else 240
    state = {'last': None, 'target': None}
    nbytes = prop.bytes_per_case

    @hseed_deco(hseed)
    @settings(max_examples=nexamples, database=None, deadline=None, derandomize=False,
              suppress_health_check=list(HealthCheck), phases=[Phase.generate, Phase.shrink],
              report_multiple_bugs=False)
    @given(st.binary(min_size=nbytes, max_size=nbytes))
    def t(data):
        cs = ChoiceStream(data)
        case = prop.gen(cs, ctx)
        if case is None:
            ctx.count('gen_rejected')
            return
        f = ctx.run_case(case)
        if f is not None and SURVEY:
            ctx.count('SURVEY ' + f.signature)
            if ('SURVEY ' + f.signature) not in ctx.survey:
                ctx.survey['SURVEY ' + f.signature] = (case, f.to_json())
            return
        if f is not None:
            if state['target'] is None:
                state['target'] = f.signature
                ctx.counting = False  # the closure re-runs during shrinking: stop counting
            if f.signature == state['target']:
                state['last'] = (case, f)
                raise PropertyViolation(f.signature)

    try:
        t()
    except Inconclusive:
        raise
    except BaseException as e:  # PropertyViolation, Flaky, ...
        if state['last'] is None:
            if isinstance(e, (KeyboardInterrupt, SystemExit)):
                raise
            raise
    if state['last'] is not None:
        case, f = state['last']
        try:
            case, f = prop.reduce(case, f, ctx)
        except Inconclusive:
            raise
        except Exception:
            pass
        ctx.violations.append((case, f))


def write_replay(pid, case, failure):
    d = os.path.join(VERIF, 'replays')
    os.makedirs(d, exist_ok=True)
    blob = json.dumps({'property': pid, 'case': case, 'failure': failure}, indent=1, sort_keys=True, default=str)
    path = os.path.join(d, '%s-%s.json' % (pid, hashlib.sha1(blob.encode()).hexdigest()[:12]))
    open(path, 'w').write(blob)
    return path


def check_known_witnesses(prop, entries, out):
    """Replay every listed finding's witness. Open + still failing -> KNOWN-FINDING line.
    Fixed entries must pass (else they are violations again)."""
    ctx = Ctx(prop, 'quick', 0, 0, 1)
    viol = []
    try:
        for e in entries:
            w = e.get('witness')
            if w is None:
                continue
            fs = prop.check(w, ctx)
            fs = [] if fs is None else (fs if isinstance(fs, list) else [fs])
            kids = [prop.known(w, f, ctx) for f in fs]
            unlisted = [f for f, k in zip(fs, kids) if k is None]
            if e.get('status') == 'open':
                if e['id'] in kids:
                    out.append('KNOWN-FINDING: property=%s %s [%s]' % (prop.id, e['what'], e['id']))
                elif not fs:
                    out.append('NOTE: known finding %s no longer reproduces on this tree' % e['id'])
            if unlisted:
                viol.append((w, unlisted[0]))
    finally:
        ctx.close()
    return viol


def run_check(pid, tier, seed, replay=None):
    t0 = time.time()
    prop = load_prop(pid)
    ok, bt = build.build(prop.configs)
    if not ok:
        print('INCONCLUSIVE property=%s build failed' % pid)
        return 2
    if replay:
        return run_replay(prop, replay)
    out = []
    entries = load_known(pid)
    try:
        wviol = check_known_witnesses(prop, entries, out)
    except Inconclusive as e:
        print('INCONCLUSIVE property=%s %s' % (pid, e))
        return 2
    for line in out:
        print(line)
    nworkers = NWORKERS
    total = int(os.environ.get('VERIF_BUDGET') or 0) or prop.budget(tier)  # VERIF_BUDGET: development aid, never set by the registered commands
    per = (total + nworkers - 1) // nworkers if total else 0
    args = [(pid, tier, seed, w, nworkers, per) for w in range(nworkers)]
    ctxm = mp.get_context('fork')
    with ctxm.Pool(nworkers) as pool:
        # overall watchdog (a stuck worker must end as "inconclusive", exit 2, never as a hang or a violation)
        limit = int(os.environ.get('VERIF_WATCHDOG_S') or (1800 if tier == 'quick' else 6 * 3600))
        try:
            results = pool.map_async(_worker, args, chunksize=1).get(timeout=limit)
        except mp.TimeoutError:
            pool.terminate()
            print('INCONCLUSIVE property=%s watchdog: workers still busy after %d s' % (pid, limit))
            return 2
    merged = {'evaluations': 0, 'nontrivial': set(), 'samples': [], 'counters': collections.Counter(),
              'known': collections.Counter(), 'violations': [], 'inconclusive': [], 'errors': []}
    for r in results:
        merged['evaluations'] += r['evaluations']
        merged['nontrivial'].update(tuple(x) if isinstance(x, list) else x for x in r['nontrivial'])
        merged['samples'].extend(r['samples'][:2])
        for ck, cv in r['counters'].items():
            if ck.startswith('max_'):
                merged['counters'][ck] = max(merged['counters'].get(ck, 0), cv)  # maxima merge by max, counts by sum
            else:
                merged['counters'][ck] += cv
        merged['known'].update(r['known'])
        merged['violations'].extend(r['violations'])
        for sk, sv in r.get('sets', {}).items():
            merged.setdefault('sets', {}).setdefault(sk, set()).update(sv)
        if r['inconclusive']:
            merged['inconclusive'].append(r['inconclusive'])
        if r['error']:
            merged['errors'].append(r['error'])
    violations = [(c, f.to_json()) for c, f in wviol] + merged['violations']
    if SURVEY:
        sv = {}
        for r in results:
            for k, v in r.get('survey', {}).items():
                sv.setdefault(k, v)
        for k in sorted(sv):
            print('%6d %s\n       case=%s\n       detail=%s' % (merged['counters'][k], k, json.dumps(sv[k][0], default=str)[:700],
                                                              json.dumps(sv[k][1]['detail'], default=str)[:700]))
        if os.environ.get('VERIF_SURVEY_OUT'):
            json.dump({k: v for k, v in sv.items()}, open(os.environ['VERIF_SURVEY_OUT'], 'w'), default=str)
    wall = time.time() - t0
    for kid, n in sorted(merged['known'].items()):
        print('known-finding-hits %s: %d generated cases fell into this listed finding' % (kid, n))
    ev = {
        'property_id': pid, 'tier': tier, 'seed': seed, 'level': prop.level,
        'coverage': {
            'evaluations': merged['evaluations'],
            'distinct_nontrivial': len(merged['nontrivial']),
            'rule': prop.rule,
            'samples': merged['samples'][:12],
            'classes': dict(sorted(merged['counters'].items())),
            'known_finding_hits': dict(merged['known']),
            'workers': nworkers,
            'build_s': round(bt, 1),
        },
        'assumptions': list(prop.assumptions),
        'wall_s': round(wall, 2),
        'violations': len(violations),
    }
    # coverage-guided tier (thorough only): cargo-fuzz target with the oracle inside the target
    if tier == 'thorough' and getattr(prop, 'fuzz_target', None) and not violations:
        from . import fuzz
        secs = int(os.environ.get('VERIF_FUZZ_SECONDS', '300'))
        fr = fuzz.run_campaign(prop.fuzz_target, secs, seed, seeds=prop.fuzz_seeds())
        ev['coverage']['fuzz'] = {k: v for k, v in fr.items() if k != 'crashes'}
        ev['coverage']['fuzz']['target'] = prop.fuzz_target
        ev['coverage']['fuzz']['crashes'] = len(fr.get('crashes', []))
        if 'build_failed' in fr:
            merged['errors'].append('fuzz target build failed:\n' + fr['build_failed'])
        for c in fr.get('crashes', []):
            if c['kind'] in ('timeout', 'oom', 'slow'):
                merged['inconclusive'].append('fuzz %s artifact %s' % (c['kind'], c['path']))
            else:
                print('VIOLATION property=%s replay=%s' % (pid, c['path']))
                print('  fuzz target %s: %s' % (prop.fuzz_target, c['message']))
                ev['violations'] += 1
        if ev['violations'] and not violations:
            ev['wall_s'] = round(time.time() - t0, 2)
            json.dump(ev, open(os.path.join(VERIF, 'evidence', pid + '.json'), 'w'), indent=1, sort_keys=True, default=str)
            return 1
    try:
        ev['coverage'].update(prop.extra_evidence(merged))
    except Exception:
        merged['errors'].append(traceback.format_exc())
    # runs against a scratch copy (self-test with a seeded change) must not overwrite the evidence of /repo
    evdir = os.path.join(VERIF, 'evidence') if os.path.realpath(build.REPO) == '/repo' else os.path.join(VERIF, 'target', 'alt-evidence')
    os.makedirs(evdir, exist_ok=True)
    json.dump(ev, open(os.path.join(evdir, pid + '.json'), 'w'), indent=1, sort_keys=True, default=str)
    print('%s %s: %d cases, %d distinct non-trivial, %d violations, %.1fs' % (pid, tier, merged['evaluations'],
                                                                            len(merged['nontrivial']), len(violations), wall))
    if violations:
        seen = set()
        per_sig = collections.Counter()
        for case, f in violations:
            per_sig[f['signature']] += 1
            if per_sig[f['signature']] > 2:
                continue
            path = write_replay(pid, case, f)
            if path in seen:
                continue
            seen.add(path)
            print('VIOLATION property=%s replay=%s' % (pid, path))
            print('  signature: %s' % f['signature'])
            print('  detail: %s' % json.dumps(f['detail'], default=str)[:1500])
        return 1
    if merged['errors']:
        print('INCONCLUSIVE property=%s internal error in the checking machinery:' % pid)
        print(merged['errors'][0])
        return 2
    if merged['inconclusive']:
        print('INCONCLUSIVE property=%s %s' % (pid, merged['inconclusive'][0]))
        return 2
    return 0


def run_replay(prop, path):
    try:
        data = json.load(open(path))
    except (ValueError, UnicodeDecodeError):
        # not a JSON case: a libFuzzer artifact of this property's fuzz target
        from . import fuzz
        if not getattr(prop, 'fuzz_target', None):
            print('INCONCLUSIVE property=%s replay file is not a case of this check' % prop.id)
            return 2
        rc, out = fuzz.replay(prop.fuzz_target, path)
        if rc == 1:
            print('VIOLATION property=%s replay=%s' % (prop.id, path))
        elif rc == 0:
            print('REPLAY property=%s: input passes on this tree' % prop.id)
        print(out[-1500:])
        return rc
    case = data['case'] if 'case' in data else data
    ctx = Ctx(prop, 'quick', 0, 0, 1)
    try:
        fs = prop.check(case, ctx)
        fs = [] if fs is None else (fs if isinstance(fs, list) else [fs])
        if not fs:
            print('REPLAY property=%s: case passes on this tree' % prop.id)
            return 0
        rc = 0
        for f in fs:
            kid = prop.known(case, f, ctx)
            if kid is not None:
                print('KNOWN-FINDING: property=%s replayed case belongs to listed finding %s' % (prop.id, kid))
                print('  %r' % f)
            elif rc == 0:
                print('VIOLATION property=%s replay=%s' % (prop.id, path))
                print('  %r' % f)
                rc = 1
        return rc
    except Inconclusive as e:
        print('INCONCLUSIVE property=%s %s' % (prop.id, e))
        return 2
    finally:
        ctx.close()


def main(argv):
    import argparse
    ap = argparse.ArgumentParser()
    ap.add_argument('pid')
    ap.add_argument('tier', nargs='?', default=os.environ.get('VERIF_TIER', 'quick'))
    ap.add_argument('--replay')
    ap.add_argument('--seed', type=int, default=int(os.environ.get('VERIF_SEED', '0') or 0))
    a = ap.parse_args(argv)
    if a.tier not in ('quick', 'thorough'):
        a.tier = 'quick'
    return run_check(a.pid.upper(), a.tier, a.seed, a.replay)


if __name__ == '__main__':
    sys.exit(main(sys.argv[1:]))
