"""Build the `sut` adapter against the *current working tree* of the repository, offline.

One binary per feature configuration (DESIGN.md 3.1), hooks enabled through
RUSTFLAGS="--cfg rustpython_parser_verif". An unchanged tree is a sub-second no-op.
"""
import os, subprocess, sys, shutil, hashlib, time

VERIF = os.path.dirname(os.path.dirname(os.path.abspath(__file__)))
REPO = os.environ.get('VERIF_REPO', '/repo')
ALL = ('A', 'B', 'C', 'D')


def _harness_dir():
    if os.path.realpath(REPO) == '/repo':
        return os.path.join(VERIF, 'harness'), os.path.join(VERIF, 'target')
    tag = hashlib.sha1(os.path.realpath(REPO).encode()).hexdigest()[:10]
    base = os.path.join(VERIF, 'target', 'alt-' + tag)
    hd = os.path.join(base, 'harness')
    os.makedirs(hd, exist_ok=True)
    src = os.path.join(VERIF, 'harness')
    for root, dirs, files in os.walk(src):
        rel = os.path.relpath(root, src)
        os.makedirs(os.path.join(hd, rel), exist_ok=True)
        for f in files:
            data = open(os.path.join(root, f), 'rb').read()
            if f == 'Cargo.toml':
                data = data.replace(b'"/repo/', ('"' + os.path.realpath(REPO) + '/').encode())
            dst = os.path.join(hd, rel, f)
            if not os.path.exists(dst) or open(dst, 'rb').read() != data:
                open(dst, 'wb').write(data)
    return hd, base


def bin_path(cfg):
    _, tgt = _harness_dir()
    return os.path.join(tgt, cfg, 'release', 'sut')


def build(cfgs, quiet=True):
    hd, tgt = _harness_dir()
    env = dict(os.environ)
    env['CARGO_NET_OFFLINE'] = 'true'
    # (development only: VERIF_EXTRA_RUSTFLAGS='-C instrument-coverage' VERIF_CARGO_TOOLCHAIN=+nightly measure which lines of the
    # repository a tier executes - selftest/coverage.sh; the registered commands never set them)
    env['RUSTFLAGS'] = ('--cfg rustpython_parser_verif ' + os.environ.get('VERIF_EXTRA_RUSTFLAGS', '')).strip()
    env.pop('RUSTC_WRAPPER', None)
    procs = []
    t0 = time.time()
    tc = [os.environ['VERIF_CARGO_TOOLCHAIN']] if os.environ.get('VERIF_CARGO_TOOLCHAIN') else []
    for c in cfgs:
        cmd = ['cargo'] + tc + ['build', '--release', '--offline', '--features', 'cfg' + c, '--target-dir', os.path.join(tgt, c)]
        procs.append((c, subprocess.Popen(cmd, cwd=hd, env=env, stdout=subprocess.PIPE, stderr=subprocess.STDOUT)))
    ok = True
    for c, p in procs:
        out = p.communicate()[0].decode('utf-8', 'replace')
        if p.returncode != 0:
            ok = False
            sys.stderr.write('BUILD FAILED cfg%s\n%s\n' % (c, out[-6000:]))
        elif not quiet:
            sys.stderr.write('built cfg%s\n' % c)
    return ok, time.time() - t0


if __name__ == '__main__':
    cfgs = sys.argv[1:] or list(ALL)
    ok, dt = build(cfgs, quiet=False)
    print('build', 'ok' if ok else 'FAILED', '%.1fs' % dt)
    sys.exit(0 if ok else 2)
