"""Reference side: CPython `ast` canonicaliser (same JSON schema as the Rust dumper), position
conversion, tree comparison (DESIGN.md 5). The running interpreter (CPython 3.11) is the reference;
PEP 695 programs go to a persistent python3.12 helper running this same file."""
import ast, json, struct, subprocess, sys, os, warnings

warnings.filterwarnings('ignore')  # invalid escape sequences etc. are part of the generated domain

PY312 = '/root/.pyenv/versions/3.12.1/bin/python3.12'


def fbits(f):
    return '%016x' % struct.unpack('<Q', struct.pack('<d', f))[0]


class LineTable:
    """universal-newline line starts on the *original* bytes; col_offset is already UTF-8 bytes"""

    def __init__(self, data: bytes):
        self.starts = [0]
        i, n = 0, len(data)
        while i < n:
            c = data[i]
            if c == 13:
                if i + 1 < n and data[i + 1] == 10:
                    i += 1
                self.starts.append(i + 1)
            elif c == 10:
                self.starts.append(i + 1)
            i += 1
        self.bom = 3 if data.startswith(b'\xef\xbb\xbf') else 0
        self.data = data

    def off(self, line, col):
        o = self.starts[line - 1] + col
        if line == 1:
            o += self.bom
        return o

    def rowcol_chars(self, off):
        """1-based (row, column in characters, BOM not counted) of a byte offset"""
        import bisect
        row = bisect.bisect_right(self.starts, off)
        ls = self.starts[row - 1]
        if row == 1 and self.bom and off >= 3:
            ls = 3
        return (row, len(self.data[ls:off].decode('utf-8', 'replace')) + 1)


def const(v):
    if v is None:
        return {'c': 'None'}
    if v is True or v is False:
        return {'c': 'bool', 'v': v}
    if v is Ellipsis:
        return {'c': 'Ellipsis'}
    if isinstance(v, str):
        return {'c': 'str', 'v': [0xFFFD if 0xD800 <= ord(ch) <= 0xDFFF else ord(ch) for ch in v]}
    if isinstance(v, bytes):
        return {'c': 'bytes', 'v': v.hex()}
    if isinstance(v, int):
        return {'c': 'int', 'v': str(v)}
    if isinstance(v, float):
        return {'c': 'float', 'v': fbits(v)}
    if isinstance(v, complex):
        return {'c': 'complex', 'v': [fbits(v.real), fbits(v.imag)]}
    raise TypeError(v)


SIMPLE = (ast.expr_context, ast.boolop, ast.operator, ast.unaryop, ast.cmpop)


def canon(node, lt):
    if node is None:
        return None
    if isinstance(node, list):
        return [canon(x, lt) for x in node]
    if isinstance(node, (str, bool, int)):
        return node
    if isinstance(node, SIMPLE):
        return type(node).__name__
    if isinstance(node, ast.arguments):
        return canon_args(node, lt)
    name = type(node).__name__
    d = {'_': name}
    if getattr(node, 'end_lineno', None) is not None and hasattr(node, 'lineno'):
        d['range'] = [lt.off(node.lineno, node.col_offset), lt.off(node.end_lineno, node.end_col_offset)]
    else:
        d['range'] = None
    for f in node._fields:
        v = getattr(node, f, None)
        if name in ('Constant', 'MatchSingleton') and f == 'value':
            d[f] = const(v)
        elif name == 'AnnAssign' and f == 'simple':
            d[f] = bool(v)
        elif name == 'comprehension' and f == 'is_async':
            d[f] = bool(v)
        else:
            d[f] = canon(v, lt)
    if name in ('FunctionDef', 'AsyncFunctionDef', 'ClassDef') and 'type_params' not in d:
        d['type_params'] = []
    return d


def canon_args(a, lt):
    """the first allowed representation difference: defaults are stored on each parameter"""
    pos = a.posonlyargs + a.args
    nd = len(a.defaults)
    defs = [None] * (len(pos) - nd) + list(a.defaults)

    def awd(arg, default):
        return {'_': 'arg_with_default', 'range': None, 'def': canon(arg, lt), 'default': canon(default, lt)}
    p = [awd(x, d) for x, d in zip(pos, defs)]
    return {'_': 'arguments', 'range': None, 'posonlyargs': p[:len(a.posonlyargs)], 'args': p[len(a.posonlyargs):],
            'vararg': canon(a.vararg, lt), 'kwonlyargs': [awd(x, d) for x, d in zip(a.kwonlyargs, a.kw_defaults)], 'kwarg': canon(a.kwarg, lt)}


def ref_parse(text, mode='exec'):
    """-> ('ok', canonical tree) | ('err', message, lineno, offset). `text` is str; a leading BOM is passed as UTF-8 bytes."""
    data = text.encode('utf-8')
    try:
        t = ast.parse(data if text.startswith('﻿') else text, mode=mode)
    except SyntaxError as e:
        return ('err', '%s: %s' % (type(e).__name__, e.msg), e.lineno, e.offset)
    except (ValueError, RecursionError, MemoryError) as e:
        return ('err', '%s: %s' % (type(e).__name__, e), None, None)
    return ('ok', canon(t, LineTable(data)))


def erase(x, keep=()):
    if isinstance(x, dict):
        return {k: erase(v, keep) for k, v in x.items() if k != 'range'}
    if isinstance(x, list):
        return [erase(v, keep) for v in x]
    return x


def first_diff(a, b, path=''):
    if type(a) != type(b):
        return (path, a, b)
    if isinstance(a, dict):
        if a.get('_') != b.get('_'):
            return (path + '/_', a.get('_'), b.get('_'))
        for k in a:
            if k not in b:
                return (path + '/' + k, '<present>', '<missing>')
            r = first_diff(a[k], b[k], path + '/' + str(a.get('_', a.get('c', ''))) + '.' + k)
            if r:
                return r
        for k in b:
            if k not in a:
                return (path + '/' + k, '<missing>', '<present>')
        return None
    if isinstance(a, list):
        if len(a) != len(b):
            return (path + '/len', len(a), len(b))
        for i, (x, y) in enumerate(zip(a, b)):
            r = first_diff(x, y, path + '[%d]' % i)
            if r:
                return r
        return None
    return None if a == b else (path, a, b)


def count_nodes(x):
    if isinstance(x, dict):
        return ('_' in x) + sum(count_nodes(v) for v in x.values())
    if isinstance(x, list):
        return sum(count_nodes(v) for v in x)
    return 0


def kinds(x, acc=None):
    acc = acc if acc is not None else {}
    if isinstance(x, dict):
        if '_' in x:
            acc[x['_']] = acc.get(x['_'], 0) + 1
        for v in x.values():
            kinds(v, acc)
    elif isinstance(x, list):
        for v in x:
            kinds(v, acc)
    return acc


class Ref312:
    """persistent python3.12 helper (PEP 695 reference)"""

    def __init__(self):
        self.p = None
        self.available = os.path.exists(PY312)

    def parse(self, text, mode='exec'):
        if not self.available:
            return None
        if self.p is None:
            self.p = subprocess.Popen([PY312, os.path.abspath(__file__), '--serve'], stdin=subprocess.PIPE, stdout=subprocess.PIPE)
        self.p.stdin.write((json.dumps({'text': text, 'mode': mode}) + '\n').encode())
        self.p.stdin.flush()
        line = self.p.stdout.readline()
        if not line:
            self.p = None
            return None
        return tuple(json.loads(line))

    def close(self):
        if self.p is not None:
            try:
                self.p.stdin.close()
                self.p.kill()
            except Exception:
                pass
            self.p = None


if __name__ == '__main__' and '--serve' in sys.argv:
    for line in sys.stdin:
        req = json.loads(line)
        sys.stdout.write(json.dumps(ref_parse(req['text'], req['mode'])) + '\n')
        sys.stdout.flush()
