"""PyGen — grammar-based Python program generator producing a token-level CST (DESIGN.md 4.1).

Written against the Python *reference grammar* (3.11 + PEP 695), not against python.lalrpop.
Everything is decoded from a ChoiceStream; alternative 0 of every choice is the simplest one, so
an exhausted stream terminates the recursion and Hypothesis' byte lowering shrinks programs.

CST: a program is a list of items; item = ('line', [tok...]) | ('block', [item...]).
tok = T(text, kind[, pair]) ; kinds: n(ame) k(eyword) o(perator) num str ( ) , : . ; and
optional-parenthesis pairs carry pair=<id> (layout may drop them: they are redundant).
Marker tokens M(kind, id, end) are zero-width and delimit constructs (own-text extents, edit sites).
"""
from . import literals


class T:
    __slots__ = ('s', 'k', 'pair')

    def __init__(self, s, k, pair=None):
        self.s, self.k, self.pair = s, k, pair

    def __repr__(self):
        return 'T(%r,%s)' % (self.s, self.k)


class M:
    __slots__ = ('kind', 'id', 'end', 'info')
    k = 'M'
    s = ''
    pair = None

    def __init__(self, kind, id, end, info=None):
        self.kind, self.id, self.end, self.info = kind, id, end, info


KW = {'and', 'as', 'assert', 'async', 'await', 'break', 'class', 'continue', 'def', 'del', 'elif', 'else', 'except', 'finally', 'for', 'from', 'global', 'if',
      'import', 'in', 'is', 'lambda', 'nonlocal', 'not', 'or', 'pass', 'raise', 'return', 'try', 'while', 'with', 'yield', 'None', 'True', 'False',
      'match', 'case', 'type'}


def tk(s):
    if s in ('(', '[', '{'):
        return T(s, '(')
    if s in (')', ']', '}'):
        return T(s, ')')
    if s in (',', ':', '.', ';'):
        return T(s, s)
    if s[0].isalpha() or s[0] == '_':
        return T(s, 'k')
    return T(s, 'o')


def toks(*ss):
    return [tk(s) if isinstance(s, str) else s for s in ss]


NAMES = ['x', 'y', 'z', 'a', 'b', 'foo', 'bar_1', '_', '__d__', 'self', 'cls', 'Alpha', 'i', 'n', 'é', 'naïve', '变量', 'ß', 'µ', 'x̃',
         'match', 'case', 'type', 'printer', 'ex', 'nonlocal_', 'T', 'await_', 'async_']
SOFT = ('match', 'case', 'type')
BINOPS = [('|', 'bor'), ('^', 'bxor'), ('&', 'band'), ('<<', 'shift'), ('>>', 'shift'), ('+', 'arith'), ('-', 'arith'), ('*', 'term'), ('/', 'term'),
          ('//', 'term'), ('%', 'term'), ('@', 'term')]
LEVELS = ['named', 'test', 'or', 'and', 'not', 'cmp', 'bor', 'bxor', 'band', 'shift', 'arith', 'term', 'factor', 'power', 'await', 'primary', 'atom']
LV = {n: i for i, n in enumerate(LEVELS)}
CMPOPS = [['<'], ['>'], ['=='], ['>='], ['<='], ['!='], ['in'], ['not', 'in'], ['is'], ['is', 'not']]
AUGOPS = ['+=', '-=', '*=', '/=', '//=', '%=', '@=', '&=', '|=', '^=', '>>=', '<<=', '**=']


_ID_TABLE = {}


def _id_table():
    """identifier characters that are the same in every Unicode version since 3.2 (assigned there, same general category),
    so that the reference's and this parser's character tables agree on them: (start characters, continue-only characters)"""
    if not _ID_TABLE:
        import unicodedata
        old = unicodedata.ucd_3_2_0
        start, cont = [], []
        for cp in list(range(0x80, 0x3100)) + list(range(0x4E00, 0x4E80)) + list(range(0xAC00, 0xAC40)) + list(range(0xFB00, 0xFFF0)) + list(range(0x10000, 0x10100)) + \
                list(range(0x1D400, 0x1D800)):
            ch = chr(cp)
            cat = unicodedata.category(ch)
            if cat == 'Cn' or old.category(ch) != cat or unicodedata.normalize('NFKC', ch) != ch:
                continue
            if ch.isidentifier():
                start.append(ch)
            elif ('a' + ch).isidentifier():
                cont.append(ch)
        _ID_TABLE['start'], _ID_TABLE['cont'] = start, cont
    return _ID_TABLE


def gen_identifier(cs):
    """a random valid identifier over the whole identifier alphabet (letters of any script, letter numbers, combining marks,
    non-ASCII digits, connector punctuation), stable under NFKC (listed finding C01-F4 is about names that are not)"""
    import unicodedata
    t = _id_table()
    n = 1 + cs.choice(4)
    out = cs.pick(['_', 'a', 'Z']) if cs.bool(60) else t['start'][cs.choice(len(t['start']))]
    for _ in range(n - 1):
        k = cs.choice(4)
        out += t['start'][cs.choice(len(t['start']))] if k == 0 else t['cont'][cs.choice(len(t['cont']))] if k == 1 else cs.pick('ab_09')
    if not out.isidentifier() or unicodedata.normalize('NFKC', out) != out or out in KW:
        return None
    return out


class PyGen:
    def __init__(self, cs, budget=60, py312=False, fstrings=True, avoid=(), ascii_only=False, soft_kw=True, counters=None):
        self.cs = cs
        self.budget = budget
        self.py312 = py312
        self.fstrings = fstrings and not py312
        self.avoid = set(avoid)
        self.ascii_only = ascii_only
        self.soft_kw = soft_kw
        self.uid = 0
        self.features = set()
        self.counters = counters if counters is not None else {}
        self.uses_soft_kw = False

    # ------------------------------------------------------------ helpers
    def spend(self, n=1):
        self.budget -= n
        return self.budget > 0

    def more(self, p=128):
        """continue a repetition? (False when out of budget)"""
        return self.budget > 0 and self.cs.bool(p)

    def feat(self, f):
        self.features.add(f)

    def excluded(self, fid):
        if fid in self.avoid:
            self.counters['excluded[%s]' % fid] = self.counters.get('excluded[%s]' % fid, 0) + 1
            return True
        return False

    def fresh(self):
        self.uid += 1
        return self.uid

    def name(self, soft_ok=True):
        cs = self.cs
        if not self.ascii_only and cs.bool(14):
            n = gen_identifier(cs)
            if n:
                self.feat('random_unicode_name')
                return T(n, 'n')
        n = cs.pick(NAMES)
        if n in SOFT:
            if not (soft_ok and self.soft_kw):
                n = 'x'
            else:
                self.uses_soft_kw = True
                self.feat('soft_kw_name')
        if self.ascii_only and not n.isascii():
            n = 'u' + str(len(n))
        elif not n.isascii():
            self.feat('non_ascii_name')
        return T(n, 'n')

    def uname(self, prefix='p'):
        """unique name (parameters, keyword arguments: duplicates are outside C01's domain)"""
        cs = self.cs
        base = cs.pick(['a', 'b', 'c', 'x', 'kw', 'é', 'arg', 'match', 'case', 'type', '_'])
        if base in SOFT and not self.soft_kw:
            base = 'q'
        if base in SOFT:
            self.uses_soft_kw = True
        if self.ascii_only and not base.isascii():
            base = 'e'
        return base

    def opt_paren(self, ts):
        """maybe wrap in a *redundant* parenthesis pair (layout decides whether it is rendered)"""
        if self.cs.bool(28):
            p = self.fresh()
            self.feat('opt_paren')
            return [T('(', '(', p)] + ts + [T(')', ')', p)]
        return ts

    def opt_paren_tuple(self, ts):
        """a bare tuple (a comma outside brackets, the one-element `x,` included) may equally be written in parentheses:
        mark the pair as redundant so that the layout renders it or not"""
        if self.cs.bool(90):
            p = self.fresh()
            self.feat('opt_paren_around_bare_tuple')
            return [T('(', '(', p)] + ts + [T(')', ')', p)]
        return ts

    # ------------------------------------------------------------ expressions
    def expr(self, level='test', ctx=None, force=None):
        """expression at precedence `level` or tighter; returns tokens (`force`: the operator family to put at the top)"""
        lv = LV[level]
        self.spend()
        cs = self.cs
        if self.budget <= 0:
            return self.atom(simple=True)
        # choose the level at which an operator is produced (>= lv); 0 -> descend straight to a primary
        k = cs.choice(22) if force is None else force
        if k < 7:
            return self.primary()
        if k == 7 and lv <= LV['named'] and ctx == 'named_ok':
            self.feat('walrus')
            return [self.name(), tk(':=')] + self.sub('test')
        if k == 8 and lv <= LV['test']:
            self.feat('ifexp')
            return self.sub('or') + [tk('if')] + self.sub('or') + [tk('else')] + self.sub('test')
        if k == 9 and lv <= LV['test']:
            return self.lambda_()
        if k == 10 and lv <= LV['or']:
            ts = self.sub('and')
            for _ in range(1 + cs.choice(2)):
                ts += [tk('or')] + self.sub('and')
            return ts
        if k == 11 and lv <= LV['and']:
            ts = self.sub('not')
            for _ in range(1 + cs.choice(2)):
                ts += [tk('and')] + self.sub('not')
            return ts
        if k == 12 and lv <= LV['not']:
            return [tk('not')] + self.sub('not')
        if k == 13 and lv <= LV['cmp']:
            ts = self.sub('bor')
            for _ in range(1 + cs.choice(3)):
                ts += [tk(w) for w in cs.pick(CMPOPS)] + self.sub('bor')
            self.feat('compare')
            return ts
        if k in (14, 15, 16):
            op, lvl = cs.pick(BINOPS)
            if lv <= LV[lvl]:
                nxt = LEVELS[LV[lvl] + 1]
                return self.sub(lvl) + [tk(op)] + self.sub(nxt)
        if k == 17 and lv <= LV['factor']:
            return [tk(cs.pick(['-', '+', '~']))] + self.sub('factor')
        if k == 18 and lv <= LV['power']:
            self.feat('power')
            return self.sub('await') + [tk('**')] + self.sub('factor')
        if k == 19 and lv <= LV['await']:
            self.feat('await')
            return [tk('await')] + self.primary()
        if k == 20:
            return self.atom()
        return self.primary()

    def sub(self, level):
        """child expression at `level`, possibly inside redundant parentheses"""
        ts = self.expr(level)
        return self.opt_paren(ts)

    def test(self):
        return self.sub('test')

    def named(self):
        """named_expression position (walrus allowed unparenthesised)"""
        if self.cs.bool(40):
            return self.expr('named', 'named_ok')
        return self.test()

    def lambda_(self):
        self.feat('lambda')
        ts = [tk('lambda')] + self.params(lam=True) + [tk(':')] + self.sub('test')
        return ts

    def primary(self):
        ts = self.atom()
        cs = self.cs
        n = 0
        while n < 3 and self.more(90):
            n += 1
            k = cs.choice(4)
            if k == 0:
                if ts[-1].k == 'num' and not ts[-1].s[-1:].isdigit():
                    break
                ts = ts + [tk('.'), self.name()]
                self.feat('attribute')
            elif k in (1, 3):
                ts = ts + self.call_args()
            else:
                ts = ts + [tk('[')] + self.slices() + [tk(']')]
                self.feat('subscript')
        return ts

    def call_args(self, allow_genexp=True):
        cs = self.cs
        self.feat('call')
        if allow_genexp and cs.bool(20) and self.budget > 3:
            # bare generator expression as the only argument
            self.feat('genexp_arg')
            return [tk('(')] + self.sub('test') + self.comp_for() + [tk(')')]
        args = []
        seen_kw = False
        seen_dstar = False
        names = set()
        while self.more(120) and len(args) < 5:
            k = cs.choice(6)
            if k == 0 or (k in (1,) and not seen_kw):
                if seen_kw:
                    continue
                args.append(self.named() if cs.bool(60) else self.test())
            elif k == 2 and not seen_dstar:
                args.append([tk('*')] + self.sub('test'))
                self.feat('star_arg')
            elif k in (3, 4):
                nm = self.uname()
                if nm in names:
                    continue
                names.add(nm)
                seen_kw = True
                args.append([T(nm, 'n'), tk('=')] + self.test())
                self.feat('kwarg_call')
            elif k == 5:
                seen_kw = True
                seen_dstar = True
                args.append([tk('**')] + self.sub('test'))
                self.feat('dstar_arg')
        ts = [tk('(')]
        for i, a in enumerate(args):
            if i:
                ts.append(tk(','))
            ts += a
        if args and cs.bool(30):
            ts.append(tk(','))
        return ts + [tk(')')]

    def slices(self):
        cs = self.cs
        items = []
        n = 1 + (cs.choice(3) if self.more(60) else 0)
        for _ in range(n):
            k = cs.choice(6)
            if k == 4:
                self.feat('slice')
                it = []
                if cs.bool():
                    it += self.test()
                it.append(tk(':'))
                if cs.bool():
                    it += self.test()
                if cs.bool(80):
                    it.append(tk(':'))
                    if cs.bool():
                        it += self.test()
                items.append(it)
            elif k == 5:
                # (listed finding C01-F1 is only about a *lone* starred index without a comma: see the end of this function)
                self.feat('star_subscript')
                items.append([tk('*')] + self.sub('bor'))
            elif k == 3:
                items.append(self.named())
            else:
                items.append(self.test())
        ts = []
        for i, a in enumerate(items):
            if i:
                ts.append(tk(','))
            ts += a
        if len(items) == 1 and items[0][0].s == '*':
            ts.append(tk(','))  # x[*a,]; the lone starred subscript x[*a] only where listed finding C01-F1 is not avoided
            if cs.bool(128) and not self.excluded('C01-F1'):
                ts.pop()
        elif cs.bool(24):
            ts.append(tk(','))
        return ts

    def comp_for(self):
        cs = self.cs
        ts = []
        n = 1 + (1 if self.more(50) else 0)
        for _ in range(n):
            mid = self.fresh()
            ts.append(M('comprehension', mid, False))
            if cs.bool(24):
                ts.append(tk('async'))
                self.feat('async_comp')
            ts += [tk('for')] + self.target_list() + [tk('in')] + self.sub('or')
            while self.more(60):
                ts += [tk('if')] + self.sub('or')
            ts.append(M('comprehension', mid, True))
        self.feat('comprehension')
        return ts

    def star_named_list(self, allow_star=True, maxn=4):
        """elements of a list/set/tuple display"""
        cs = self.cs
        items = []
        while len(items) < maxn and self.more(150):
            if allow_star and cs.bool(30):
                items.append([tk('*')] + self.sub('bor'))
                self.feat('starred')
            elif cs.bool(30):
                items.append(self.named())
            else:
                items.append(self.test())
        return items

    def join(self, items, trailing=None):
        ts = []
        for i, a in enumerate(items):
            if i:
                ts.append(tk(','))
            ts += a
        if items and (trailing if trailing is not None else self.cs.bool(30)):
            ts.append(tk(','))
        return ts

    def atom(self, simple=False):
        cs = self.cs
        k = 0 if simple else cs.choice(24)
        self.spend()
        if k < 5:
            return [self.name()]
        if k < 8:
            return [T(literals.gen_number(cs), 'num')]
        if k < 10:
            return self.strings()
        if k == 10:
            return [tk(cs.pick(['None', 'True', 'False']))]
        if k == 11:
            return [T('...', 'o')]
        if k == 12:
            # parenthesised group (required parentheses: anything may be inside)
            self.feat('group')
            j = cs.choice(4)
            if j == 0:
                return [tk('(')] + self.expr('named', 'named_ok') + [tk(')')]
            if j == 1:
                self.feat('yield_expr')
                y = [tk('yield')]
                if cs.bool():
                    y += ([tk('from')] + self.test()) if cs.bool(60) else self.star_exprs()
                return [tk('(')] + y + [tk(')')]
            return [tk('(')] + self.expr('test') + [tk(')')]
        if k == 13:
            self.feat('tuple')
            items = self.star_named_list()
            if len(items) == 1:
                return [tk('(')] + items[0] + [tk(','), tk(')')]
            return [tk('(')] + self.join(items) + [tk(')')]
        if k == 14:
            self.feat('list')
            return [tk('[')] + self.join(self.star_named_list()) + [tk(']')]
        if k == 15:
            items = self.star_named_list() or [self.test()]
            self.feat('set')
            return [tk('{')] + self.join(items) + [tk('}')]
        if k == 16:
            self.feat('dict')
            items = []
            while len(items) < 4 and self.more(150):
                if cs.bool(40):
                    items.append([tk('**')] + self.sub('bor'))
                    self.feat('dict_unpack')
                else:
                    items.append(self.test() + [tk(':')] + self.test())
            return [tk('{')] + self.join(items) + [tk('}')]
        if k == 17 and self.budget > 4:
            j = cs.choice(4)
            if j == 0:
                self.feat('listcomp')
                return [tk('[')] + self.named() + self.comp_for() + [tk(']')]
            if j == 1:
                self.feat('setcomp')
                return [tk('{')] + self.named() + self.comp_for() + [tk('}')]
            if j == 2:
                self.feat('dictcomp')
                return [tk('{')] + self.test() + [tk(':')] + self.test() + self.comp_for() + [tk('}')]
            self.feat('genexp')
            return [tk('(')] + self.named() + self.comp_for() + [tk(')')]
        if k == 18 and self.fstrings:
            return self.strings(force_f=True)
        if k == 19:
            return [tk('(')] + self.expr('test') + [tk(')')]
        return [self.name()]

    def strings(self, force_f=False):
        cs = self.cs
        lits = literals.gen_string_concat(cs, self, force_f=force_f)
        return lits

    # ------------------------------------------------------------ targets
    def target(self, star_ok=True, depth=0):
        cs = self.cs
        if getattr(self, '_no_star', False):
            star_ok = False
        k = cs.choice(10)
        if k < 4 or self.budget <= 0:
            return [self.name()]
        self.spend()
        if k == 4:
            return self.t_primary() + [tk('.'), self.name()]
        if k == 5:
            return self.t_primary() + [tk('[')] + self.slices() + [tk(']')]
        if k == 6 and depth < 2:
            self.feat('tuple_target')
            if cs.bool(24):
                self.feat('empty_tuple_target')
                return [tk('('), tk(')')]     # `() = x` is a valid (empty) unpacking target
            items = [self.target(True, depth + 1) for _ in range(1 + cs.choice(3))]
            if sum(1 for it in items if it[0].s == '*') > 1:
                items = [it for it in items if it[0].s != '*'] or [[self.name()]]
            if len(items) == 1:
                return [tk('(')] + items[0] + [tk(','), tk(')')]
            return [tk('(')] + self.join(items) + [tk(')')]
        if k == 7 and depth < 2:
            self.feat('list_target')
            items = [self.target(True, depth + 1) for _ in range(cs.choice(3))]
            if sum(1 for it in items if it[0].s == '*') > 1:
                items = [it for it in items if it[0].s != '*']
            return [tk('[')] + self.join(items) + [tk(']')]
        if k == 8 and star_ok and depth > 0:
            self.feat('star_target')
            return [tk('*')] + self.target(False, depth + 1)
        if k == 9 and depth < 2:
            return [tk('(')] + self.target(False, depth + 1) + [tk(')')]
        return [self.name()]

    def t_primary(self):
        ts = [self.name()]
        while self.more(50):
            k = self.cs.choice(3)
            if k == 0:
                ts += [tk('.'), self.name()]
            elif k == 1:
                ts += [tk('[')] + self.slices() + [tk(']')]
            else:
                ts += self.call_args()
        return ts

    def target_list(self):
        """star_targets: one target or a bare tuple of targets"""
        cs = self.cs
        if cs.bool(70):
            items = [self.target(True, 1) for _ in range(1 + cs.choice(3))]
            if sum(1 for it in items if it[0].s == '*') > 1:
                items = [it for it in items if it[0].s != '*'] or [[self.name()]]
            if len(items) == 1:
                return self.opt_paren_tuple(items[0] + [tk(',')])
            return self.opt_paren_tuple(self.join(items))
        return self.target(False, 0)

    def single_target(self):
        cs = self.cs
        k = cs.choice(4)
        if k == 1:
            return self.t_primary() + [tk('.'), self.name()]
        if k == 2:
            return self.t_primary() + [tk('[')] + self.slices() + [tk(']')]
        return [self.name()]

    # ------------------------------------------------------------ parameters
    def params(self, lam=False):
        cs = self.cs
        used = set()

        def pname():
            for _ in range(8):
                n = self.uname()
                if n not in used:
                    used.add(n)
                    return n
            n = 'p%d' % len(used)
            used.add(n)
            return n

        def param(default_ok, must_default, star=False):
            mid = self.fresh()
            ts = [M('param', mid, False), T(pname(), 'n')]
            if not lam and cs.bool(70):
                ts += [tk(':')] + (([tk('*')] + self.sub('bor')) if star and cs.bool(30) else self.test())
                self.feat('annotation')
            has_d = False
            if default_ok and (must_default or cs.bool(80)):
                ts += [tk('=')] + self.test()
                has_d = True
                self.feat('param_default')
            ts.append(M('param', mid, True))
            return ts, has_d
        parts = []
        seen_default = False
        npo = cs.small(2) if cs.bool(50) else 0
        for _ in range(npo):
            p, d = param(True, seen_default)
            seen_default = seen_default or d
            parts.append(p)
        if npo:
            parts.append([tk('/')])
            self.feat('posonly')
        for _ in range(cs.small(3)):
            p, d = param(True, seen_default)
            seen_default = seen_default or d
            parts.append(p)
        k = cs.choice(4)
        nkw = cs.small(2)
        if k == 1:
            p, _ = param(False, False, star=True)
            parts.append([tk('*')] + p)
            self.feat('vararg')
        elif k == 2 and nkw == 0:
            nkw = 1
        if nkw and k != 1:
            parts.append([tk('*')])
        if nkw:
            self.feat('kwonly')
        for _ in range(nkw):
            p, _ = param(True, False)
            parts.append(p)
        if cs.bool(50):
            p, _ = param(False, False)
            parts.append([tk('**')] + p)
            self.feat('kwarg')
        # (a trailing comma may follow every kind of last parameter, `*args` and `**kw` included - only a bare `*` cannot be last)
        ts = self.join(parts, trailing=(cs.bool(40) and bool(parts) and not (parts[-1][0].s == '*' and len(parts[-1]) == 1)))
        if parts and parts[-1][0].s == '*' and len(parts[-1]) == 1:
            raise AssertionError('bare * last')
        return ts

    def type_params(self):
        cs = self.cs
        items = []
        for _ in range(1 + cs.choice(3)):
            k = cs.choice(4)
            nm = T('T%d' % len(items), 'n')
            if k == 1:
                items.append([nm, tk(':')] + self.test())
            elif k == 2:
                items.append([tk('*'), nm])
            elif k == 3:
                items.append([tk('**'), nm])
            else:
                items.append([nm])
        self.feat('type_params')
        return [tk('[')] + self.join(items) + [tk(']')]

    # ------------------------------------------------------------ statements
    def program(self, nstmts=None):
        cs = self.cs
        items = []
        n = nstmts if nstmts is not None else 1 + cs.small(5)
        for _ in range(n):
            items += self.stmt(0)
            if self.budget <= 0:
                break
        return items

    def block(self, depth):
        items = []
        n = 1 + (self.cs.small(3) if self.budget > 0 else 0)
        for _ in range(n):
            items += self.stmt(depth + 1)
        return ('block', items)

    def suite(self, depth, header):
        """header tokens (ending with ':') + body: either an indented block or a one-line suite"""
        cs = self.cs
        if cs.bool(40):
            self.feat('one_line_suite')
            self._in_one_line_suite = True
            try:
                return [('line', header + self.simple_line())]
            finally:
                self._in_one_line_suite = False
        return [('line', header), self.block(depth)]

    def simple_line(self):
        ts = self.simple_stmt()
        while self.more(36):
            ts += [tk(';')] + self.simple_stmt(after_semi=True)
            self.feat('semicolon')
        if self.cs.bool(10):
            ts.append(tk(';'))
        # open finding C01-F2: a logical line that starts with `match` / `case` used as a *name* and has a
        # top-level ':' later on (annotated assignment, also after ';') is rejected -> excluded by construction
        first = next((t for t in ts if t.k != 'M'), None)
        if first is not None and first.k == 'n' and first.s in ('match', 'case'):
            d = 0
            pending_lambda = False   # as in the finding's predicate (c01.top_level_colon): one lambda colon is told apart
            for t in ts:
                if t.pair is not None:
                    continue  # redundant parentheses may be dropped by the layout: they do not count as nesting
                if t.k == '(':
                    d += 1
                elif t.k == ')':
                    d -= 1
                elif d == 0 and t.k == 'k' and t.s == 'lambda':
                    pending_lambda = True
                elif d == 0 and t.k == ':' and pending_lambda:
                    pending_lambda = False
                elif d == 0 and t.k == ':' and self.excluded('C01-F2'):
                    first.s = 'matches'
                    break
        return ts

    @staticmethod
    def _paren_tuple(ts):
        """do these tokens (redundant parentheses and markers aside) form one parenthesised group with a comma at its top level?"""
        ts = [t for t in ts if t.k != 'M' and t.pair is None]
        if len(ts) < 2 or ts[0].s != '(' or ts[-1].s != ')':
            return False
        d = 0
        comma = False
        for i, t in enumerate(ts):
            if t.k == '(':
                d += 1
            elif t.k == ')':
                d -= 1
                if d == 0 and i != len(ts) - 1:
                    return False
            elif d == 1 and t.k == ',':
                comma = True
        return comma

    def stmt(self, depth):
        cs = self.cs
        self.spend()
        if depth >= 4 or self.budget <= 0 or cs.bool(150):
            return [('line', self.simple_line())]
        return self.compound(depth)

    def simple_stmt(self, after_semi=False):
        cs = self.cs
        self.spend()
        k = cs.choice(30)
        if k < 4 or self.budget <= 0:
            return self.star_exprs() if k == 3 else self.test()
        if k < 8:
            self.feat('assign')
            ts = []
            for _ in range(1 + cs.small(2)):
                ts += self.target_list() + [tk('=')]
            return ts + self.assign_rhs()
        if k == 8:
            self.feat('augassign')
            return self.single_target() + [tk(cs.pick(AUGOPS))] + self.assign_rhs()
        if k == 9:
            self.feat('annassign')
            j = cs.choice(4)
            if j == 3 and not self.excluded('C01-F22'):
                tgt = [tk('('), self.name(soft_ok=False), tk(')')]
            elif j == 0:
                tgt = [self.name(soft_ok=True)]
            else:
                tgt = self.single_target()
            ts = tgt + [tk(':')] + self.test()
            if cs.bool():
                ts += [tk('=')] + self.assign_rhs()
            return ts
        if k == 10:
            return [tk('return')] + (self.star_exprs() if cs.bool(200) else [])
        if k == 11:
            self.feat('raise')
            ts = [tk('raise')]
            if cs.bool(200):
                ts += self.test()
                if cs.bool(80):
                    ts += [tk('from')] + self.test()
            return ts
        if k == 12:
            return [tk(cs.pick(['pass', 'break', 'continue']))]
        if k == 13:
            self.feat('del')
            self._no_star = True
            try:
                return [tk('del')] + self.join([self.target(False, 0) for _ in range(1 + cs.choice(3))])
            finally:
                self._no_star = False
        if k == 14:
            self.feat('assert')
            ts = [tk('assert')] + self.test()
            if cs.bool(100):
                ts += [tk(',')] + self.test()
            return ts
        if k == 15:
            self.feat('import')
            items = []
            for _ in range(1 + cs.choice(3)):
                it = self.dotted()
                if cs.bool(80):
                    it += [tk('as'), self.name()]
                items.append(it)
            return [tk('import')] + self.join(items, trailing=False)
        if k == 16:
            self.feat('importfrom')
            ts = [tk('from')]
            nd = cs.choice(5) if cs.bool(100) else 0
            if nd == 3 and cs.bool():
                ts.append(T('...', 'o'))
            else:
                ts += [tk('.')] * nd
            if nd == 0 or cs.bool():
                ts += self.dotted()
            ts.append(tk('import'))
            j = cs.choice(4)
            if j == 0:
                ts.append(tk('*'))
            else:
                items = []
                for _ in range(1 + cs.choice(3)):
                    it = [self.name()]
                    if cs.bool(80):
                        it += [tk('as'), self.name()]
                    items.append(it)
                if j == 1:
                    ts += [tk('(')] + self.join(items) + [tk(')')]
                else:
                    ts += self.join(items, trailing=False)
            return ts
        if k == 17:
            self.feat('global')
            return [tk(cs.pick(['global', 'nonlocal']))] + self.join([[self.name()] for _ in range(1 + cs.choice(3))], trailing=False)
        if k == 18:
            self.feat('yield_stmt')
            ts = [tk('yield')]
            if cs.bool(60):
                return ts + [tk('from')] + self.test()
            if cs.bool(200):
                ts += self.star_exprs()
            return ts
        if k == 19 and self.py312 and not ((after_semi or getattr(self, '_in_one_line_suite', False)) and self.excluded('C01-F3')):
            self.feat('type_alias')
            ts = [tk('type'), self.name(soft_ok=True)]
            if cs.bool(100):
                ts += self.type_params()
            return ts + [tk('=')] + self.test()
        if k == 20:
            return self.named() if False else self.test()
        return self.star_exprs()

    def star_exprs(self):
        """star_expressions: a test or a bare tuple (with starred items)"""
        cs = self.cs
        if cs.bool(50):
            items = self.star_named_list(maxn=3) or [self.test()]
            items = [it if it[0].s == '*' or it[0].k != 'n' or len(it) < 2 or it[1].s != ':=' else self.test() for it in items]
            if len(items) == 1:
                if cs.bool():
                    return self.opt_paren_tuple(items[0] + [tk(',')])
                if items[0][0].s == '*':
                    return self.opt_paren_tuple(items[0] + [tk(',')])
                return items[0]
            self.feat('bare_tuple')
            return self.opt_paren_tuple(self.join(items))
        return self.test()

    def assign_rhs(self):
        cs = self.cs
        if cs.bool(24):
            self.feat('yield_rhs')
            ts = [tk('yield')]
            if cs.bool():
                ts += self.star_exprs()
            return ts
        return self.star_exprs()

    def dotted(self):
        ts = [self.name()]
        while self.more(80):
            ts += [tk('.'), self.name()]
        return ts

    def decorators(self):
        out = []
        while self.more(50):
            out.append(('line', [tk('@')] + self.named()))
            self.feat('decorator')
        return out

    def compound(self, depth):
        cs = self.cs
        k = cs.choice(16)
        if k == 2:
            k = 8       # (the `with` statement has a copy of the expression grammar of its own: twice the share of the others)
        if k < 3:
            self.feat('if')
            out = self.suite(depth, [tk('if')] + self.named() + [tk(':')])
            while self.more(70):
                out += self.suite(depth, [tk('elif')] + self.named() + [tk(':')])
                self.feat('elif')
            if cs.bool(90):
                out += self.suite(depth, [tk('else'), tk(':')])
            return out
        if k == 3:
            self.feat('while')
            out = self.suite(depth, [tk('while')] + self.named() + [tk(':')])
            if cs.bool(60):
                out += self.suite(depth, [tk('else'), tk(':')])
            return out
        if k == 4:
            self.feat('for')
            pre = [tk('async')] if cs.bool(40) else []
            out = self.suite(depth, pre + [tk('for')] + self.target_list() + [tk('in')] + self.star_exprs() + [tk(':')])
            if cs.bool(60):
                out += self.suite(depth, [tk('else'), tk(':')])
            return out
        if k in (5, 6):
            self.feat('funcdef')
            out = self.decorators()
            hdr = ([tk('async')] if cs.bool(40) else []) + [tk('def'), self.name()]
            if self.py312 and cs.bool(80):
                hdr += self.type_params()
            hdr += [tk('(')] + self.params() + [tk(')')]
            if cs.bool(70):
                hdr += [tk('->')] + self.test()
                self.feat('returns')
            return out + self.suite(depth, hdr + [tk(':')])
        if k == 7:
            self.feat('classdef')
            out = self.decorators()
            hdr = [tk('class'), self.name()]
            if self.py312 and cs.bool(80):
                hdr += self.type_params()
            if cs.bool(150):
                a = self.call_args(allow_genexp=False)
                if self.excluded('C13-F1') and self._kw_before_star(a):
                    a = [tk('('), tk(')')]
                hdr += a
            return out + self.suite(depth, hdr + [tk(':')])
        if k == 8:
            self.feat('with')
            pre = [tk('async')] if cs.bool(40) else []
            items = []
            for _ in range(1 + cs.small(2)):
                mid = self.fresh()
                if cs.bool(60):
                    # an item that begins with a parenthesis which is *not* the statement's own: the grammar has a copy of its
                    # atom / primary rules just for this position
                    self.feat('with_item_led_by_parenthesis')
                    inner = [tk('(')] + self.sub('test') + [tk(')')]
                    j = cs.choice(6)
                    if j == 0:
                        expr = inner + [tk('.'), self.name()]
                    elif j == 1:
                        expr = inner + [tk('[')] + self.sub('test') + [tk(']')]
                    elif j == 2:
                        expr = inner + [tk('(')] + (self.sub('test') if cs.bool() else []) + [tk(')')]
                    elif j == 3:
                        # (the right operand binds tighter than the operator, so that redundant parentheses around it stay redundant)
                        op = cs.pick(['+', 'or', '**', 'if'])
                        if op == 'if':
                            expr = inner + [tk('if')] + self.sub('or') + [tk('else')] + self.sub('test')
                        else:
                            expr = inner + [tk(op)] + self.sub({'+': 'term', 'or': 'and', '**': 'factor'}[op])
                    elif j == 4:
                        expr = inner + [tk('.'), self.name(), tk('(')] + [tk(')')] + [tk('.'), self.name()]
                    else:
                        expr = [tk(cs.pick(['[', '{', '(']))]
                        close = {'[': ']', '{': '}', '(': ')'}[expr[0].s]
                        expr += self.sub('or') + [tk('for'), self.name(soft_ok=False), tk('in')] + self.sub('or') + [tk(close)]
                    it = [M('withitem', mid, False)] + expr
                elif cs.bool(100):
                    # the grammar repeats its whole expression hierarchy for the items of a `with` statement: every operator family
                    # at the top of an item, unparenthesised, goes through productions of that copy
                    self.feat('with_item_operator_at_top')
                    expr = self.expr('test', force=8 + cs.choice(12))
                    if cs.bool(170):
                        # ... and a redundant pair around the whole item takes it through the ordinary productions instead
                        pp = self.fresh()
                        expr = [T('(', '(', pp)] + expr + [T(')', ')', pp)]
                    it = [M('withitem', mid, False)] + expr
                else:
                    it = [M('withitem', mid, False)] + self.test()
                if cs.bool(120):
                    it += [tk('as')] + self.target(False, 0)
                it.append(M('withitem', mid, True))
                items.append(it)
            if len(items) == 1 and not any(t.s == 'as' and t.k == 'k' for t in items[0]) and self._paren_tuple(items[0]):
                # `with (a, b):` is a parenthesised list of two items, not one tuple item (and one more pair of
                # parentheses turns it into the tuple): the generator means the tuple, so it says so with `as`
                mid_end = items[0].pop()
                items[0] += [tk('as')] + self.target(False, 0) + [mid_end]
                self.feat('with_tuple_item_disambiguated')
            if cs.bool(60) and (len(items) > 1 or any(t.s == 'as' for t in items[0])):
                self.feat('with_parens')
                hdr = pre + [tk('with'), tk('(')] + self.join(items) + [tk(')')]
            else:
                hdr = pre + [tk('with')] + self.join(items, trailing=False)
            return self.suite(depth, hdr + [tk(':')])
        if k == 9:
            self.feat('try')
            star = cs.bool(50)
            out = self.suite(depth, [tk('try'), tk(':')])
            nh = cs.small(3)
            if nh == 0 and cs.bool(128):
                nh = 1
            for i in range(nh):
                hdr = [tk('except')] + ([tk('*')] if star else [])
                if star or cs.bool(200) or i < nh - 1:
                    hdr += self.test()
                    if cs.bool(100):
                        hdr += [tk('as'), self.name()]
                out += self.suite(depth, hdr + [tk(':')])
            if star and nh:
                self.feat('try_star')
            if nh and cs.bool(60):
                out += self.suite(depth, [tk('else'), tk(':')])
            if nh == 0 or cs.bool(80):
                out += self.suite(depth, [tk('finally'), tk(':')])
            return out
        if k == 10:
            return self.match_stmt(depth)
        return [('line', self.simple_line())]

    @staticmethod
    def _kw_before_star(a):
        seen_kw = False
        d = 0
        for i, t in enumerate(a):
            if t.k == '(':
                d += 1
            elif t.k == ')':
                d -= 1
            elif d == 1 and t.s == '=' and a[i - 1].k == 'n':
                seen_kw = True
            elif d == 1 and t.s == '*' and a[i - 1].s in (',', '(') and seen_kw:
                return True
        return False

    # ------------------------------------------------------------ match statement
    def match_stmt(self, depth):
        cs = self.cs
        self.feat('match')
        self.uses_soft_kw = True
        j = cs.choice(4)
        if j == 1 and not self.excluded('C01-F23'):
            subj = self.sub('test') + [tk(',')]
        elif j == 2:
            # two or more items (the grammar builds the list left-recursively from the third on), later ones possibly starred
            subj = self.join([self.sub('test')] + [([tk('*')] + self.sub('bor')) if cs.bool(40) else self.sub('test') for _ in range(1 + cs.small(3))])
        elif j == 3:
            subj = self.named()
        else:
            subj = self.sub('test')
        if subj and subj[0].s == '*':
            subj = [self.name(soft_ok=False)]
        if cs.bool(60):
            subj = self.colon_rich()
        cases = []
        for _ in range(1 + cs.small(3)):
            mid = self.fresh()
            hdr = [M('match_case', mid, False), tk('case')] + self.pattern_top()
            if cs.bool(60):
                hdr += [tk('if')] + (self.named() if cs.bool(190) else self.colon_rich())
                self.feat('guard')
            cases += self.suite(depth + 1, hdr + [tk(':')])
            cases.append(('mark', M('match_case', mid, True)))
        return [('line', [tk('match')] + subj + [tk(':')]), ('block', cases)]

    def colon_rich(self):
        """an expression with colons of its own - lambdas bare and inside every kind of bracket, dict displays, slices - for the
        lines on which the soft-keyword look-ahead has to tell such colons from the one that ends a `match` / `case` header"""
        cs = self.cs
        self.feat('colon_rich_header_expr')
        k = cs.choice(8)
        if k == 0:
            return self.lambda_()
        if k == 1:
            return [tk('(')] + self.lambda_() + [tk(')')]
        if k == 2:
            return [tk('[')] + self.lambda_() + [tk(','), self.name(soft_ok=False), tk(']')]
        if k == 3:
            return [self.name(soft_ok=False), tk('(')] + self.lambda_() + [tk(')')]
        if k == 4:
            return [tk('{')] + self.sub('or') + [tk(':')] + self.sub('test') + [tk('}')]
        if k == 5:
            return [self.name(soft_ok=False), tk('[')] + self.sub('or') + [tk(':')] + (self.sub('or') if cs.bool() else []) + [tk(']')]
        if k == 6:
            return [tk('{')] + self.sub('or') + [tk(':'), tk('(')] + self.lambda_() + [tk(')'), tk('}')]
        return self.sub('or') + [tk('if')] + self.sub('or') + [tk('else'), tk('(')] + self.lambda_() + [tk(')')]

    def pattern_top(self):
        cs = self.cs
        if cs.bool(40):
            # open sequence pattern
            items = [self.maybe_star_pattern() for _ in range(1 + cs.choice(3))]
            if sum(1 for it in items if it[0].s == '*') > 1:
                items = [it for it in items if it[0].s != '*'] or [self.pattern()]
            self.feat('pat_open_seq')
            if len(items) == 1:
                return items[0] + [tk(',')]
            return self.join(items)
        return self.pattern()

    def maybe_star_pattern(self):
        if self.cs.bool(40):
            self.feat('pat_star')
            return [tk('*'), T(self.cs.pick(['rest', '_', 'xs']), 'n')]
        return self.pattern()

    def pattern(self, depth=0):
        cs = self.cs
        p = self.or_pattern(depth)
        if cs.bool(30):
            self.feat('pat_as')
            return p + [tk('as'), T(cs.pick(['name', 'v', 'w1']), 'n')]
        return p

    def or_pattern(self, depth):
        ts = self.closed_pattern(depth)
        while self.more(36):
            ts += [tk('|')] + self.closed_pattern(depth)
            self.feat('pat_or')
        return ts

    def closed_pattern(self, depth):
        cs = self.cs
        self.spend()
        k = cs.choice(14) if depth < 3 and self.budget > 0 else cs.choice(5)
        if k == 0:
            return [T(cs.pick(['x', 'y', 'val', 'match', 'case', 'type'] if self.soft_kw else ['x', 'y', 'val']), 'n')]
        if k == 1:
            return [T('_', 'n')]
        if k == 2:
            # literal patterns
            j = cs.choice(6)
            if j == 0:
                return [tk('-'), T(literals.gen_number(cs, imag=False), 'num')]
            if j == 1:
                re_ = literals.gen_number(cs, imag=False)
                im = literals.gen_imag(cs)
                self.feat('pat_complex')
                return ([tk('-')] if cs.bool() else []) + [T(re_, 'num'), tk(cs.pick(['+', '-'])), T(im, 'num')]
            if j == 2:
                return literals.gen_string_concat(cs, self, no_f=True)
            return [T(literals.gen_number(cs), 'num')]
        if k == 3:
            return [tk(cs.pick(['None', 'True', 'False']))]
        if k == 4:
            # value pattern: dotted name
            self.feat('pat_value')
            return [self.name(soft_ok=True), tk('.'), self.name()] + ([tk('.'), self.name()] if cs.bool(60) else [])
        if k == 5:
            self.feat('pat_group')
            return [tk('(')] + self.pattern(depth + 1) + [tk(')')]
        if k in (6, 7):
            self.feat('pat_sequence')
            items = [self.maybe_star_pattern() if cs.bool(80) else self.pattern(depth + 1) for _ in range(cs.choice(4))]
            if sum(1 for it in items if it[0].s == '*') > 1:
                items = [it for it in items if it[0].s != '*']
            if k == 6:
                return [tk('[')] + self.join(items) + [tk(']')]
            if len(items) == 1:
                return [tk('(')] + items[0] + [tk(','), tk(')')]
            return [tk('(')] + self.join(items) + [tk(')')]
        if k in (8, 9):
            self.feat('pat_mapping')
            items = []
            for _ in range(cs.choice(4)):
                j = cs.choice(6)
                if j == 0:
                    key = [T(literals.gen_number(cs, imag=False), 'num')]
                elif j == 1:
                    key = literals.gen_string_concat(cs, self, no_f=True)
                elif j == 2:
                    key = [self.name(soft_ok=False), tk('.'), self.name()]
                elif j == 3:
                    key = [tk(cs.pick(['None', 'True', 'False']))]
                elif j == 4:
                    key = [tk('-'), T(literals.gen_number(cs, imag=False), 'num')]
                    self.feat('pat_mapping_signed_key')
                else:
                    key = ([tk('-')] if cs.bool() else []) + [T(literals.gen_number(cs, imag=False), 'num'), tk(cs.pick(['+', '-'])), T(literals.gen_imag(cs), 'num')]
                    self.feat('pat_mapping_complex_key')
                items.append(key + [tk(':')] + self.pattern(depth + 1))
            if cs.bool(60):
                items.append([tk('**'), T('rest', 'n')])
                self.feat('pat_mapping_rest')
                return [tk('{')] + self.join(items, trailing=cs.bool(30)) + [tk('}')]
            return [tk('{')] + self.join(items) + [tk('}')]
        if k in (10, 11):
            self.feat('pat_class')
            cls = [self.name(soft_ok=True)] + ([tk('.'), self.name()] if cs.bool(60) else [])
            if cls[0].s == '_' and len(cls) == 1:
                cls = [T('C', 'n')]
            items = [self.pattern(depth + 1) for _ in range(cs.choice(3))]
            names = set()
            for _ in range(cs.choice(3)):
                nm = self.uname()
                if nm in names or nm == '_':
                    continue
                names.add(nm)
                items.append([T(nm, 'n'), tk('=')] + self.pattern(depth + 1))
            return cls + [tk('(')] + self.join(items) + [tk(')')]
        return [T('_', 'n')]
