"""Layout policies and rendering of PyGen CSTs (DESIGN.md 4.2).

render(items, layout) -> Rendered(text, marks, feats)
  marks: {(kind, id): [start_byte, end_byte]} for marker pairs (begin = start of the next token,
         end = end of the last token emitted);
  feats: set of layout features actually used (non-triviality rules, evidence).

Base layout (layout=None or Layout.plain()): one space between tokens, LF, four-space indentation,
redundant parentheses dropped. Python accepts blanks between any two tokens, so this is always valid.
"""
from .literals import NL
from ..choice import ChoiceStream

WORDISH = ('n', 'k', 'num')


def can_tight(a, b):
    """conservative: may tokens a, b be written without a blank between them with the same tokenisation?"""
    ak, bk = a.k, b.k
    if ak == '(':
        return True
    if bk in (')', ','):
        return not (ak == 'num' and False)
    if bk == '(' and b.s in ('(', '[') and ak in ('n', ')', 'str'):
        return True
    if ak == '.' and bk == 'n':
        return True
    if bk == '.' and ak in ('n', ')', 'str'):
        return True
    if ak in ('o', ',', ':', ';') and bk in ('n', 'k', 'num', 'str', '('):
        return not (a.s[-1:] in '.' and bk == 'num')
    if ak in ('n', 'k', 'num', 'str', ')') and bk in ('o', ':', ';'):
        if ak == 'num' and b.s[:1] in '.eEjJxXoObB_':
            return False
        return True
    return False


DIMS = ('eol', 'blank', 'gap', 'indent', 'parens', 'bom', 'ff', 'trailing', 'final')


class Layout:
    def __init__(self, cs, plain=False, dims=None):
        self.cs = cs
        self.plain = plain or cs is None
        self.dims = set(dims) if dims is not None else set(DIMS)   # enabled layout dimensions (C08 sweeps them one by one)

    @staticmethod
    def base():
        return Layout(None, True)


class Rendered:
    __slots__ = ('text', 'marks', 'feats', 'nlines')

    def __init__(self, text, marks, feats, nlines):
        self.text, self.marks, self.feats, self.nlines = text, marks, feats, nlines


COMMENTS = ['#', '# c', '#é 中', '# type: ignore', '#!x', '# "q\'', '#\t', '# \\']


class _R:
    def __init__(self, lay):
        self.lay = lay
        self.cs = lay.cs
        self.plain = lay.plain
        self.out = []
        self.pos = 0
        self.marks = {}
        self.pending = []
        self.last_end = 0
        self.feats = set()
        self.nlines = 0
        self.eol_default = '\n'
        self.keep_pairs = {}
        self.default_eol = None
        self.dims = lay.dims if not lay.plain else set()

    def w(self, s):
        if s:
            self.out.append(s)
            self.pos += len(s.encode('utf-8'))

    def eol(self):
        if self.plain or 'eol' not in self.dims:
            return '\n'
        cs = self.cs
        k = cs.choice(8)
        if self.default_eol is None:
            self.default_eol = cs.pick(['\n', '\n', '\r\n', '\r'])
        e = self.default_eol if k < 6 else cs.pick(['\n', '\r\n', '\r'])
        if e != '\n':
            self.feats.add('crlf' if e == '\r\n' else 'cr')
        return e

    def blank_lines(self, indent):
        """blank / comment-only lines before a logical line"""
        if self.plain or 'blank' not in self.dims:
            return
        cs = self.cs
        while cs.bool(28):
            k = cs.choice(5)
            if k == 0:
                self.w(self.eol())
                self.feats.add('blank_line')
            elif k == 1:
                self.w(cs.pick([' ', '   ', '\t', '\t ', '\x0c']) + self.eol())  # never space-then-tab: outside C01's domain
                self.feats.add('blank_line_ws')
            else:
                self.w(cs.pick(['', ' ', '        ', '\t', indent, indent + '  ']) + cs.pick(COMMENTS) + self.eol())
                self.feats.add('comment_line')
            self.nlines += 1

    def token_text(self, t):
        s = t.s
        if NL in s:
            if self.plain or 'eol' not in self.dims:
                return s.replace(NL, '\n')
            # one line-break spelling per token: independent choices could put a CR directly before an LF and
            # silently turn two line breaks into one CRLF
            e = self.eol()
            self.feats.add('eol_in_string')
            return s.replace(NL, e)
        return s

    def gap(self, a, b, depth, indent):
        """separator between tokens a and b"""
        if self.plain or 'gap' not in self.dims:
            return ' '
        cs = self.cs
        k = cs.choice(16)
        if k < 6:
            return ' '
        if k < 10:
            if can_tight(a, b):
                self.feats.add('tight')
                return ''
            return ' '
        if k == 10:
            return cs.pick(['  ', '\t', ' \t', '   '])
        if k in (11, 12, 13):
            if depth > 0:
                # line break inside brackets (optionally with a comment), arbitrary indentation
                self.feats.add('newline_in_brackets')
                s = cs.pick(['', ' ', ' ' + cs.pick(COMMENTS), cs.pick(COMMENTS)])
                if s.strip():
                    self.feats.add('comment_in_brackets')
                    if not s.startswith(' ') and not can_tight(a, a) and a.k in WORDISH + ('str',):
                        s = ' ' + s
                self.nlines += 1
                # (a continuation line is not measured as indentation: blanks and tabs in any order, form feeds)
                return s + self.eol() + cs.pick(['', ' ', '    ', '\t', indent + '    ', '          ', '  \t', ' \t ', '\t \t', '\x0c  ', '  \x0c\t'])
            if k == 11:
                # explicit line joining
                self.feats.add('backslash_join')
                self.nlines += 1
                pre = '' if can_tight(a, b) and cs.bool() else ' '
                return pre + '\\' + self.eol() + cs.pick(['', ' ', '    ', '\t', indent, '  \t', ' \t  ', '\x0c '])
            return ' '
        return ' '

    def line(self, toks, indent, first_line):
        cs = self.cs
        self.blank_lines(indent)
        lead = indent
        if not self.plain and 'ff' in self.dims and cs.bool(6):
            lead = '\x0c' + indent
            self.feats.add('form_feed')
        self.w(lead)
        depth = 0
        prev = None
        for t in toks:
            if t.k == 'M':
                if t.end:
                    self.marks.setdefault((t.kind, t.id), [None, None])[1] = self.last_end
                else:
                    self.pending.append(t)
                continue
            if t.pair is not None:
                keep = self.keep_pairs.get(t.pair)
                if keep is None:
                    keep = (not self.plain) and 'parens' in self.dims and cs.bool(128)
                    self.keep_pairs[t.pair] = keep
                    if keep:
                        self.feats.add('redundant_parens')
                if not keep:
                    continue
            if prev is not None:
                self.w(self.gap(prev, t, depth, indent))
            for m in self.pending:
                self.marks.setdefault((m.kind, m.id), [None, None])[0] = self.pos
            self.pending = []
            self.w(self.token_text(t))
            self.last_end = self.pos
            if t.k == '(':
                depth += 1
            elif t.k == ')':
                depth -= 1
            prev = t
        # end of the logical line
        if not self.plain and 'trailing' in self.dims:
            k = cs.choice(10)
            if k == 0:
                self.w(cs.pick([' ', '  ', '\t']))
                self.feats.add('trailing_ws')
            elif k == 1:
                self.w(cs.pick(['', ' ', '  ']) + cs.pick(COMMENTS))
                self.feats.add('trailing_comment')
        self.nlines += 1

    def items(self, items, indent, state):
        cs = self.cs
        for it in items:
            if it[0] == 'line':
                if state['need_eol']:
                    self.w(self.eol())
                self.line(it[1], indent, False)
                state['need_eol'] = True
            elif it[0] == 'mark':
                m = it[1]
                self.marks.setdefault((m.kind, m.id), [None, None])[1 if m.end else 0] = self.last_end
            else:
                if self.plain or 'indent' not in self.dims:
                    extra = '    '
                else:
                    has_space = ' ' in indent
                    k = cs.choice(8)
                    if k == 0 and not has_space:
                        extra = '\t'
                        self.feats.add('tab_indent')
                    elif k == 1 and not has_space:
                        extra = '\t' + ' ' * (1 + cs.choice(3))
                        self.feats.add('tab_space_indent')
                    elif k == 2:
                        extra = ' ' * (1 + cs.choice(8))
                        self.feats.add('odd_indent')
                    else:
                        extra = '    '
                self.items(it[1], indent + extra, state)


def render(items, layout=None):
    lay = layout or Layout.base()
    r = _R(lay)
    if not r.plain and 'bom' in r.dims and r.cs.bool(16 if len(r.dims) > 1 else 200):
        r.w('\ufeff')
        r.feats.add('bom')
    state = {'need_eol': False}
    r.items(items, '', state)
    # last line terminator (optional) and trailing blank / comment lines
    if r.plain or 'final' not in r.dims:
        r.w(r.eol() if not r.plain else '\n')
    else:
        cs = r.cs
        if cs.bool(200):
            r.w(r.eol())
            r.blank_lines('')
            if cs.bool(24):
                r.w(cs.pick(['  ', '# last', '\t', '\x0c']))
                r.feats.add('no_final_eol')
        else:
            r.feats.add('no_final_eol')
    return Rendered(''.join(r.out), {k: v for k, v in r.marks.items()}, r.feats, r.nlines)


def plain_text(items):
    return render(items).text
