"""Invalid / arbitrary input generators (DESIGN.md 4.5) for C03, C09, C10, C05."""
import re
from .pygen import PyGen
from .layout import render, Layout
from ..choice import ChoiceStream

DICT = ['if', 'else', 'elif', 'for', 'while', 'def', 'class', 'return', 'lambda', 'match', 'case', 'type', 'async', 'await', 'with', 'as', 'try', 'except',
        'finally', 'import', 'from', 'not', 'and', 'or', 'in', 'is', 'None', 'True', 'yield', 'del', 'global', 'pass', 'raise', 'assert',
        '(', ')', '[', ']', '{', '}', ',', ':', ';', '.', '...', '=', '==', '!=', '<', '>', '<=', '>=', '+', '-', '*', '**', '/', '//', '%', '@', '&', '|', '^', '~',
        '<<', '>>', ':=', '->', '+=', '-=', '*=', '**=', '//=', '>>=', '<<=', '@=', '!', '$', '?', '`', '\\',
        'x', 'y', 'foo', '_', 'é', '变量', '\U0001f600', 'x̃',
        '0', '1', '00', '0x', '0x1f', '0b2', '0o8', '1_', '1__0', '1e', '1e5', '1.5', '1.', '.5', '1j', '0xg', '1_000', '9' * 30, '1e999', '0_', '0_7', '08',
        '""', "''", '"a"', "'a", '"a', '"""', "'''", '"""a"""', "b'a'", "b'é'", "rb''", "f'{x}'", "f'{'", "f'}'", "f'{}'", "f'{x!z}'", "f'{x!r:>{y}}'", "f'{x'",
        "f'{(x}'", "f'{x]}'", "f'{a:{b:{c}}}'", "f'{\\n}'", "f'{#}'", "u'a'", "'\\x4'", "'\\N{X}'", "'\\N{DIGIT ONE}'", "'\\u12'", "'\\U00110000'", "b'\\xff'",
        "ur''", "bf''", "'a' b'b'",
        '\n', '\n', '\r\n', '\r', '\n    ', '\n  ', '\n\t', '\n \t', '\n        ', ' ', '  ', '\t', '\x0c', '#c', '# é\n', '\\\n', '\\ \n', '\\x',
        '﻿', ' ', ' ', '\x00', '\x7f', '\x1b', '\ud7ff', '￿', '\U0010ffff', '​', '؜']

TOKEN_RE = re.compile(r'''\s+|[A-Za-z_À-￿][\wÀ-￿]*|\d[\w.]*|'''
                      r'''[rbfuRBFU]{0,2}("""(?:\\.|[^\\])*?"""|\'\'\'(?:\\.|[^\\])*?\'\'\'|"(?:\\.|[^"\\\n])*"|'(?:\\.|[^'\\\n])*')|[^\w\s]''', re.S)


def base_program(cs, budget=14, layout=True):
    g = PyGen(cs, budget=4 + cs.choice(budget), py312=cs.bool(30))
    items = g.program(nstmts=1 + cs.choice(3))
    lay = Layout(ChoiceStream(cs.d[::-1])) if layout and cs.bool() else None
    return render(items, lay).text


def gen_soup(cs, maxn=24):
    n = 1 + cs.choice(maxn)
    out = []
    for _ in range(n):
        out.append(cs.pick(DICT))
        out.append(cs.pick(['', ' ', ' ', ' ', '\n', '\n    ', '\t', '']))
    return ''.join(out)


def tokens_of(text):
    return [m.group(0) for m in TOKEN_RE.finditer(text)]


def gen_token_mutant(cs, text):
    ts = tokens_of(text)
    if not ts:
        return text
    for _ in range(1 + cs.choice(3)):
        k = cs.choice(5)
        i = cs.choice(len(ts))
        if k == 0 and len(ts) > 1:
            del ts[i]
        elif k == 1:
            ts.insert(i, ts[i])
        elif k == 2 and len(ts) > 1:
            j = cs.choice(len(ts))
            ts[i], ts[j] = ts[j], ts[i]
        elif k == 3:
            ts[i] = cs.pick(DICT)
        else:
            ts.insert(i, cs.pick(DICT))
    return ''.join(ts)


EDIT_CHARS = ['\t', '\x0c', '\r', '\n', '\\', '"', "'", '{', '}', '(', ')', '[', ']', '#', '!', '$', '?', '﻿', ' ', '\x7f', '\x00', 'é', '中',
              '\U0001f600', '́', ' ', ':', '=', '0', '_', '.', 'e', 'f', 'b', ' ']


def gen_char_mutant(cs, text):
    cps = list(text)
    for _ in range(1 + cs.choice(3)):
        k = cs.choice(3)
        if k == 0 or not cps:
            cps.insert(cs.choice(len(cps) + 1), cs.pick(EDIT_CHARS))
        elif k == 1:
            del cps[cs.choice(len(cps))]
        else:
            cps[cs.choice(len(cps))] = cs.pick(EDIT_CHARS)
    return ''.join(cps)


# code points on the boundary of the identifier definition (Unicode Other_ID_Start / Other_ID_Continue, XID exceptions, and a few
# characters whose NFKC form or ID status is special): directed inputs for the lexer's start / continuation predicates
ID_BOUNDARY = ['\u1885', '\u1886', '\u2118', '\u212e', '\u309b', '\u309c', '\u00b7', '\u0387', '\u1369', '\u1371', '\u19da', '\u037a', '\u0e33', '\ufe33', '\uff3f',
               '\u203f', '\u2040', '\u00aa', '\u00ba', '\u2160', '\u3007', '\u0660', '\u0903', '\u093e', '\u1e9b', '\ufb01', '\U0001d7ce', '\U000e0100', '\u200c', '\u200d']
UNI_RANGES = [(0x20, 0x7e), (0xa0, 0x24f), (0x300, 0x36f), (0x370, 0x3ff), (0x600, 0x6ff), (0x2000, 0x206f), (0x2028, 0x2029), (0x3000, 0x303f),
              (0x4e00, 0x4eff), (0xd7f0, 0xd7ff), (0xe000, 0xe0ff), (0xfe00, 0xfe0f), (0xfeff, 0xfeff), (0xfff0, 0xffff), (0x10000, 0x100ff),
              (0x1f600, 0x1f64f), (0xe0000, 0xe007f), (0x10ff00, 0x10ffff), (0x0, 0x1f), (0x7f, 0x9f)]


def gen_unicode(cs, maxn=40):
    n = cs.choice(maxn)
    out = []
    for _ in range(n):
        if cs.bool(24):
            out.append(cs.pick(ID_BOUNDARY))
            continue
        if cs.bool(12):
            out.append(cs.pick(DICT))
            continue
        lo, hi = cs.pick(UNI_RANGES)
        c = lo + cs.choice(hi - lo + 1)
        if 0xD800 <= c <= 0xDFFF:
            c = 0x41
        out.append(chr(c))
    return ''.join(out)


FAMILIES = {
    'open_parens': lambda n: '(' * n,
    'balanced_parens': lambda n: '(' * n + 'x' + ')' * n,
    'balanced_brackets': lambda n: '[' * n + ']' * n,
    'mixed_brackets': lambda n: '([{' * (n // 3) + '}])' * (n // 3),
    'close_parens': lambda n: ')' * n,
    'braces_dict': lambda n: '{1:' * n + '2' + '}' * n,
    'indent_staircase': lambda n: ''.join(' ' * i + 'if x:\n' for i in range(n)) + ' ' * n + 'pass\n',
    'indent_staircase_no_eol': lambda n: ''.join(' ' * i + 'if x:\n' for i in range(n)) + ' ' * n + 'pass',
    'binop_chain': lambda n: 'x' + '+x' * n,
    'compare_chain': lambda n: 'x' + '<x' * n,
    'boolop_chain': lambda n: 'x' + ' or x' * n,
    'unary_chain': lambda n: '-' * n + 'x',
    'not_chain': lambda n: 'not ' * n + 'x',
    'power_chain': lambda n: 'x' + '**x' * n,
    'attr_chain': lambda n: 'x' + '.y' * n,
    'call_chain': lambda n: 'f' + '()' * n,
    'subscript_chain': lambda n: 'x' + '[0]' * n,
    'string_concat': lambda n: "'a' " * n,
    'fstring_concat': lambda n: "f'{x}' " * n,
    'fstring_fields': lambda n: "f'" + '{x}' * n + "'",
    'decorators': lambda n: '@d\n' * n + 'def f(): pass\n',
    'elifs': lambda n: 'if x: pass\n' + 'elif x: pass\n' * n,
    'long_int': lambda n: '9' * n,
    'long_hex': lambda n: '0x' + 'f' * n,
    'long_float': lambda n: '1.' + '3' * n,
    'long_name': lambda n: 'a' * n,
    'long_name_unicode': lambda n: 'é' * n,
    'long_string': lambda n: "'" + 'a' * n + "'",
    'long_comment': lambda n: '#' + 'c' * n,
    'soft_kw_lines': lambda n: 'match = 1\ncase = 2\ntype = 3\n' * (n // 3 + 1),
    'match_lines': lambda n: 'match x:\n' + ' case 1: pass\n' * n,
    'type_lines': lambda n: 'type X = int\n' * n,
    'continuations': lambda n: 'x = 1' + ' \\\n + 1' * n,
    'blank_lines': lambda n: '\n' * n + 'x',
    'cr_lines': lambda n: 'x\r' * n,
    'semicolons': lambda n: 'x;' * n,
    'commas_tuple': lambda n: 'x,' * n,
    'lambda_nest': lambda n: 'lambda: ' * n + 'x',
    'ifexp_nest': lambda n: 'x if x else ' * n + 'x',
    'listcomp_nest': lambda n: '[' * n + 'x' + ' for x in y]' * n,
    'dict_items': lambda n: '{' + 'x: y, ' * n + '}',
    'args': lambda n: 'f(' + 'x, ' * n + ')',
    'kwargs': lambda n: 'f(' + ', '.join('a%d=1' % i for i in range(n)) + ')',
    'params': lambda n: 'def f(' + ', '.join('a%d' % i for i in range(n)) + '): pass',
    'tabs_indent': lambda n: ''.join('\t' * i + 'if x:\n' for i in range(n)) + '\t' * n + 'pass\n',
    'form_feeds': lambda n: '\x0c' * n + 'x',
    'spaces': lambda n: ' ' * n + 'x',
    'bad_chars': lambda n: '$' * n,
    'emoji': lambda n: '\U0001f600' * n,
    'unterminated_string': lambda n: "'" + 'a' * n,
    'unterminated_triple': lambda n: "'''" + 'a\n' * n,
    'walrus_nest': lambda n: '(x := ' * n + '1' + ')' * n,
    'star_exprs': lambda n: '*' * n + 'x',
    'dots': lambda n: '.' * n,
    'from_dots': lambda n: 'from ' + '.' * n + 'x import y',
    'nested_fstring': lambda n: 'f"{' * min(n, 6) + 'x' + '}"' * min(n, 6),
    'try_handlers': lambda n: 'try: pass\n' + 'except E: pass\n' * n,
    'with_items': lambda n: 'with ' + ', '.join('a as b' for _ in range(max(n, 1))) + ': pass',
    'patterns_or': lambda n: 'match x:\n case ' + ' | '.join('1' for _ in range(max(n, 1))) + ': pass\n',
    'patterns_nest': lambda n: 'match x:\n case ' + '[' * n + ']' * n + ': pass\n',
    'global_names': lambda n: 'global ' + ', '.join('a%d' % i for i in range(max(n, 1))),
    'slices': lambda n: 'x[' + ', '.join('a:b:c' for _ in range(max(n, 1))) + ']',
    'dedent_to_unknown': lambda n: ''.join(' ' * (2 * i) + 'if x:\n' for i in range(n)) + ' ' * (2 * n) + 'pass\n pass\n',
}
NESTING_FAMILIES = {'open_parens', 'balanced_parens', 'balanced_brackets', 'mixed_brackets', 'braces_dict', 'indent_staircase', 'indent_staircase_no_eol',
                    'unary_chain', 'not_chain', 'lambda_nest', 'ifexp_nest', 'listcomp_nest', 'tabs_indent', 'walrus_nest', 'star_exprs', 'patterns_nest',
                    'dedent_to_unknown', 'power_chain'}

EDIT_CHARS = EDIT_CHARS + ID_BOUNDARY
DICT = DICT + ID_BOUNDARY + ['type X[(]] = int', 'type X', 'match x', '..', '.....']
