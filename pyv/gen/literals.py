"""Literal grammars (DESIGN.md 4.3, 4.4): numbers, string / bytes literals, f-strings (pre-PEP 701 rules).

String tokens may contain the placeholder NL ('\\ue000') for a *raw line break inside the literal*;
the layout renderer replaces each occurrence by LF, CRLF or CR (C06/C08: all three mean '\\n').
"""
NL = '\ue000'

PREFIXES_STR = ['', '', '', 'r', 'R', 'u', 'U']
PREFIXES_BYTES = ['b', 'B', 'br', 'Br', 'bR', 'BR', 'rb', 'rB', 'Rb', 'RB']
PREFIXES_F = ['f', 'F', 'fr', 'Fr', 'fR', 'FR', 'rf', 'rF', 'Rf', 'RF']
SIMPLE_ESC = ['\\n', '\\t', '\\\\', "\\'", '\\"', '\\a', '\\b', '\\f', '\\r', '\\v', '\\0', '\\x41', '\\xe9', '\\101', '\\7', '\\18', '\\u00e9', '\\u4e2d',
              '\\U0001f600', '\\N{DIGIT ONE}', '\\N{LATIN SMALL LETTER E WITH ACUTE}', '\\q', '\\d', '\\ ', '\\8', '\\777', '\\ud800']
BYTES_ESC = ['\\n', '\\t', '\\\\', "\\'", '\\"', '\\a', '\\b', '\\f', '\\r', '\\v', '\\0', '\\x41', '\\xe9', '\\xff', '\\101', '\\7', '\\18', '\\u00e9', '\\N{X}',
             '\\q', '\\d', '\\377', '\\400', '\\777']
PLAIN = ['a', 'b', 'Z', '0', ' ', '  ', '#', '%s', '{', '}', '$', 'é', 'ß', '中', '\U0001f600', '\t', "it", 'x y', '-', '_', '\x0c', '\x7f', '​']
PLAIN_BYTES = ['a', 'b', 'Z', '0', ' ', '#', '%s', '{', '}', '$', '\t', 'xy', '-', '~']


U16_BORDERS = [0, 1, 0x7f, 0x80, 0xff, 0x100, 0x7ff, 0x800, 0xd7ff, 0xd800, 0xdbff, 0xdc00, 0xdfff, 0xe000, 0xfffd, 0xfffe, 0xffff]
U32_BORDERS = [0xffff, 0x10000, 0x1f600, 0x10fffe, 0x10ffff, 0xd800, 0xdfff, 0xe0001, 0x2028, 0xfeff]
ESC_NAMES = ['DIGIT ONE', 'OX', 'LINE FEED', 'BOX DRAWINGS LIGHT DIAGONAL UPPER CENTRE TO MIDDLE LEFT AND MIDDLE RIGHT TO LOWER CENTRE', 'CJK UNIFIED IDEOGRAPH-4E2D',
             'HANGUL SYLLABLE GAG', 'latin small letter e with acute', 'Grinning Face', 'ZERO WIDTH NO-BREAK SPACE', 'TAG LATIN SMALL LETTER A']


def gen_escape(cs, is_bytes):
    """one escape sequence built from its grammar (numeric ones at the borders of their ranges as often as inside)"""
    k = cs.choice(5 if not is_bytes else 2)
    if k == 0:
        v = cs.pick([0, 0x7f, 0x80, 0xff, 0x0a, 0x27, 0x5c]) if cs.bool() else cs.byte()
        return ('\\x%02x' if cs.bool(200) else '\\x%02X') % v
    if k == 1:
        v = cs.pick([0, 7, 8, 0o77, 0o100, 0o177, 0o200, 0o377, 0o400, 0o777]) if cs.bool() else cs.choice(512)
        return '\\' + (('%o' % v) if cs.bool() else ('%03o' % v))
    if k == 2:
        v = cs.pick(U16_BORDERS) if cs.bool() else cs.choice(0x10000)
        return ('\\u%04x' if cs.bool(200) else '\\u%04X') % v
    if k == 3:
        v = cs.pick(U32_BORDERS) if cs.bool() else cs.choice(0x110000)
        return ('\\U%08x' if cs.bool(200) else '\\U%08X') % v
    return '\\N{%s}' % cs.pick(ESC_NAMES)


def gen_digits(cs, digs='0123456789', first=None, maxn=6):
    n = 1 + cs.choice(maxn)
    out = cs.pick(first or digs)
    for _ in range(n - 1):
        if cs.bool(40):
            out += '_'
        out += cs.pick(digs)
    return out


def gen_wide_int(cs):
    """an integer literal in a random base whose value sits at a machine-word border (2^k-1, 2^k, 2^k+1 for k in 8, 16, 31, 32,
    53, 63, 64, 65, 127, 128) or whose digit count sits at the border of what fits in 64 bits for that base, first digit random"""
    base, pre, digs = cs.pick([(2, '0b', '01'), (8, '0o', '01234567'), (10, '', '0123456789'), (16, '0x', '0123456789abcdef')])
    if cs.bool():
        v = (1 << cs.pick([8, 16, 31, 32, 53, 63, 64, 65, 127, 128])) + cs.pick([-1, 0, 1])
        body = {2: bin(v)[2:], 8: oct(v)[2:], 10: str(v), 16: hex(v)[2:]}[base]
    else:
        n = {2: 64, 8: 22, 10: 20, 16: 16}[base] + cs.pick([-1, 0, 0, 1])
        body = cs.pick(digs[1:]) + ''.join(cs.pick(digs) for _ in range(n - 1))
    if cs.bool(40) and len(body) > 4:
        body = body[:3] + '_' + body[3:]
    if pre and cs.bool(60):
        pre = pre.upper()
    if base == 16 and cs.bool(80):
        body = body.upper()
    return pre + body


def gen_int(cs):
    k = cs.choice(13)
    if k == 12:
        return gen_wide_int(cs)
    if k < 4:
        return cs.pick(['0', '1', '2', '7', '10', '42', '255', '1000', '00', '0_0', '000'])
    if k < 6:
        return gen_digits(cs, first='123456789')
    if k == 6:
        return cs.pick(['0x', '0X']) + ('_' if cs.bool(30) else '') + gen_digits(cs, '0123456789abcdefABCDEF')
    if k == 7:
        return cs.pick(['0o', '0O']) + ('_' if cs.bool(30) else '') + gen_digits(cs, '01234567')
    if k == 8:
        return cs.pick(['0b', '0B']) + ('_' if cs.bool(30) else '') + gen_digits(cs, '01')
    if k == 9:
        return cs.pick(['9223372036854775807', '9223372036854775808', '18446744073709551616', '340282366920938463463374607431768211456',
                        '1' + '0' * (cs.choice(60) + 1), '9' * (cs.choice(80) + 1), '0xffffffffffffffffffffffff', '1_000_000_000_000_000_000_000'])
    return gen_digits(cs, first='123456789', maxn=4)


def gen_float(cs):
    k = cs.choice(8)
    if k == 0:
        return gen_digits(cs) + '.'
    if k == 1:
        return '.' + gen_digits(cs)
    if k == 2:
        return gen_digits(cs) + '.' + gen_digits(cs)
    if k == 3:
        return gen_digits(cs) + cs.pick('eE') + cs.pick(['', '+', '-']) + gen_digits(cs, maxn=2)
    if k == 4:
        return gen_digits(cs) + '.' + gen_digits(cs) + cs.pick('eE') + cs.pick(['', '+', '-']) + gen_digits(cs, maxn=2)
    if k == 5:
        return cs.pick(['1e308', '1.7976931348623157e308', '1.7976931348623159e308', '1e309', '5e-324', '2.4703282292062328e-324', '2.4703282292062327e-324',
                        '1e-400', '0.1', '1e16', '9007199254740993.0', '9007199254740992.5', '0.30000000000000004', '2.2250738585072014e-308',
                        '4.35', '0.000001', '1e22', '1e23', '123456789012345678901234567890.0', '0e0', '00.5', '0_0.0_0', '1_0e1_0'])
    if k == 6:
        return '.' + gen_digits(cs) + cs.pick('eE') + cs.pick(['', '+', '-']) + gen_digits(cs, maxn=2)
    return cs.pick(['0.', '1.', '0.0', '1.5', '3.14', '10.', '1e5', '1E-5'])


def gen_imag(cs):
    base = gen_float(cs) if cs.bool() else gen_digits(cs, maxn=3)
    return base + cs.pick('jJ')


def gen_number(cs, imag=True):
    k = cs.choice(10)
    if k < 5:
        return gen_int(cs)
    if k < 8 or not imag:
        return gen_float(cs)
    return gen_imag(cs)


def quote_styles(restrict):
    if restrict is None:
        return ["'", '"', "'''", '"""']
    return restrict['quotes']


def gen_body(cs, q, raw, is_bytes, restrict, fmode=False):
    """body text of a non-f literal (or the literal pieces of an f-string when fmode)"""
    triple = len(q) == 3
    out = ''
    n = cs.small(5)
    no_bs = restrict is not None and restrict.get('no_backslash')
    for _ in range(n):
        k = cs.choice(10)
        if k < 4:
            piece = cs.pick(PLAIN_BYTES if is_bytes else PLAIN)
            if fmode:
                piece = piece.replace('{', '{{').replace('}', '}}')
        elif k < 6 and not no_bs:
            piece = cs.pick(BYTES_ESC if is_bytes else SIMPLE_ESC) if cs.bool(150) else gen_escape(cs, is_bytes)
            if raw and piece in ("\\'", '\\"'):
                pass
            if fmode and '{' in piece and not raw:
                pass  # \N{...} is an escape in a non-raw f-string
            elif fmode and '{' in piece:
                piece = '\\d'
        elif k == 6:
            piece = '"' if q[0] == "'" else "'"   # the other quote character
            if restrict is not None:
                piece = 'o'
        elif k == 7 and triple:
            piece = cs.pick([NL, NL, q[0], q[0] * 2 + 'x', ' ' + NL + ' ', NL + '\ufeff', NL + 'é', NL])  # (U+FEFF is a BOM only at the very start of a source)
            if restrict is not None:
                piece = 'n'
        elif k == 8 and not no_bs:
            piece = '\\' + NL   # backslash-newline (line continuation inside the literal; kept verbatim when raw)
        elif k == 9 and not no_bs:
            piece = '\\\\' if not raw else '\\d'
        else:
            piece = 'a'
        out += piece
    # a body must not end with an odd backslash run or with the quote char (triple)
    if out.endswith('\\') and (len(out) - len(out.rstrip('\\'))) % 2 == 1:
        out += 'z'
    if triple and out.endswith(q[0]):
        out += 'z'
    if triple and out.startswith(q[0]) and False:
        out = 'z' + out
    if not triple:
        # single-quoted: no raw line break, no unescaped own quote
        out = out.replace(NL, '') if not out.endswith('\\' + NL) and ('\\' + NL) not in out else out
        res = ''
        i = 0
        while i < len(out):
            c = out[i]
            if c == '\\' and i + 1 < len(out):
                res += out[i:i + 2]
                i += 2
                continue
            if c == q or (c == NL):
                i += 1
                continue
            res += c
            i += 1
        out = res
    return out


def gen_plain_literal(cs, kind, restrict, gen=None):
    """kind: 'str' | 'bytes'"""
    q = cs.pick(quote_styles(restrict))
    if kind == 'bytes':
        prefix = cs.pick(PREFIXES_BYTES)
    else:
        prefix = cs.pick(PREFIXES_STR)
        if prefix == 'U' and gen is not None and gen.excluded('C01-F24'):
            prefix = 'u'
    raw = 'r' in prefix.lower()
    body = gen_body(cs, q, raw, kind == 'bytes', restrict)
    if kind == 'bytes':
        body = ''.join(ch for ch in body if ord(ch) < 128 or ch == NL)
    if len(q) == 3:
        # pieces may line up to the closing quote sequence: break such runs
        while q in body:
            body = body.replace(q, q[0] * 2 + 'z' + q[0], 1)
        if body.endswith(q[0]):
            body += 'z'
    return prefix + q + body + q


def render_inner(tokens):
    """text of an expression inside an f-string field: one space between tokens, redundant parentheses kept"""
    return ' '.join(t.s for t in tokens if t.k != 'M')


def restrict_no_nl(gen):
    r = getattr(gen, 'str_restrict', None)
    return r is not None


def gen_field(cs, gen, q, depth=0):
    """one replacement field '{expr[=][!c][:spec]}' of an f-string quoted with q"""
    inner_q = ['"'] if q[0] == "'" else ["'"]
    saved = (gen.str_restrict if hasattr(gen, 'str_restrict') else None, gen.fstrings)
    gen.str_restrict = {'quotes': inner_q, 'no_backslash': True}
    gen.fstrings = False
    try:
        if depth == 0:
            toks = gen.expr('test')
        else:
            toks = gen.primary() if cs.bool() else [gen.name()]
    finally:
        gen.str_restrict, gen.fstrings = saved
    d = 0
    need_paren = False
    for t in toks:
        if t.k == '(':
            d += 1
        elif t.k == ')':
            d -= 1
        elif d == 0 and (t.s in (':', ':=', '=', 'lambda', '!') or (t.k == 'str' and False)):
            need_paren = True
    text = render_inner(toks)
    if need_paren or '#' in text or '\\' in text:
        text = '(' + text + ')' if '#' not in text and '\\' not in text else 'x'
    if NL in text or '\n' in text or '\r' in text:
        text = 'x'
    if q[0] in text:
        text = 'x'
    if len(q) == 3 and cs.bool(36) and not (restrict_no_nl(gen)):
        # inside a triple-quoted f-string a replacement field may span lines: line breaks after the brace, between the
        # tokens of the expression and before the closing brace (in the full-lexer build they are tokens of their own)
        j = cs.choice(3)
        if j == 0 or ' ' not in text:
            text = NL + cs.pick(['', ' ', '    ']) + text + (NL if cs.bool() else '')
        elif j == 1:
            i = text.index(' ')
            text = text[:i] + NL + text[i:]
        else:
            text = text + NL
        gen.feat('fstring_field_spans_lines')
    s = '{'
    # (`{{` is a literal brace only at the top level of the literal; inside a format spec it opens a nested field whose
    # expression starts with a brace display, so the separating blank is optional there)
    s += ' ' if (text.startswith('{') and (depth == 0 or cs.bool(128))) or cs.bool(40) else ''
    s += text
    selfdoc = False
    if depth == 0 and cs.bool(40):
        selfdoc = True
        gen.feat('fstring_selfdoc')
        s += cs.pick(['=', ' =', '= ', ' = '])
    elif text.endswith('}') or cs.bool(30):
        s += ' '
    if cs.bool(60):
        s += '!' + cs.pick('rsa')
        gen.feat('fstring_conversion')
    if cs.bool(70):
        gen.feat('fstring_spec')
        s += ':'
        for _ in range(cs.small(3)):
            k = cs.choice(5)
            if k == 0 and depth == 0:
                s += gen_field(cs, gen, q, 1)
                gen.feat('fstring_nested_spec')
            elif k == 1:
                s += cs.pick(['>10', '.3f', 'x', '^', ' ', '<5', ':', '!r', '08.3', ',', '%Y-%m', 'é', '+', '#x', '!', '=10', '=^5', '=', '>=3', '!=', ':=1'])
            elif k == 2 and cs.bool(90) and not gen.excluded('C07-F1'):
                # an escape sequence in the format spec (decoded unless the literal is raw; listed finding C07-F1)
                s += cs.pick(['\\n', '\\x41', '\\\\', '\\t', '\\u00e9', '\\101'])
                gen.feat('fstring_spec_escape')
            else:
                s += cs.pick(['d', '5', '.2', 's', ''])
    return s + '}'


def gen_fstring_literal(cs, gen, restrict):
    q = cs.pick(quote_styles(restrict))
    prefix = cs.pick(PREFIXES_F)
    raw = 'r' in prefix.lower()
    body = ''
    for _ in range(1 + cs.small(4)):
        k = cs.choice(6)
        if k < 4 and cs.bool(20) and not (restrict is not None and restrict.get('no_backslash')):
            # a backslash directly in front of a brace: literal text in a raw f-string (and an unknown escape otherwise),
            # never something that hides the brace
            body += '\\'
            gen.feat('fstring_backslash_before_brace')
        if k < 3:
            body += gen_field(cs, gen, q)
            gen.feat('fstring_field')
        elif k == 3:
            body += cs.pick(['{{', '}}', '{{}}', '}}{{'])
            gen.feat('fstring_doubled_brace')
        else:
            piece = gen_body(cs, q, raw, False, restrict, fmode=True)
            if piece.endswith('{') or piece.endswith('}'):
                pass
            body += piece
    # guard: the assembled body must not contain the closing quote sequence
    if len(q) == 1:
        pass
    else:
        while q in body:
            body = body.replace(q, q[0] + 'z' + q[0] * 0, 1)
        if body.endswith(q[0]):
            body += 'z'
    if body.endswith('\\') and (len(body) - len(body.rstrip('\\'))) % 2 == 1:
        body += 'z'
    return prefix + q + body + q


def gen_string_concat(cs, gen, force_f=False, no_f=False):
    """1..4 adjacent literals of compatible kinds; returns tokens (kind 'str')"""
    from .pygen import T
    restrict = getattr(gen, 'str_restrict', None)
    n = 1 + (cs.small(3) if cs.bool(70) else 0)
    if restrict is not None:
        n = 1
    is_bytes = (not force_f) and cs.bool(50)
    toks = []
    for i in range(n):
        if is_bytes:
            lit = gen_plain_literal(cs, 'bytes', restrict, gen)
            gen.feat('bytes_literal')
        elif (force_f and i == 0 or cs.bool(50)) and gen.fstrings and not no_f and restrict is None:
            lit = gen_fstring_literal(cs, gen, restrict)
            gen.feat('fstring')
        else:
            lit = gen_plain_literal(cs, 'str', restrict, gen)
        toks.append(T(lit, 'str'))
        if restrict is None and i + 1 < n and cs.bool(20):
            toks.append(T(lit, 'str'))   # the same literal twice in a row (equal adjacent pieces must both survive merging)
    if n > 1:
        gen.feat('str_concat')
    return toks
