"""Choice stream: every generator decision is decoded from ONE fixed-size byte string drawn
by Hypothesis (DESIGN.md 3.2). Monotone decoding (`byte*n >> 8`) so that Hypothesis' byte
lowering shrinks towards alternative 0; an exhausted stream yields 0 forever."""


class ChoiceStream:
    __slots__ = ('d', 'i', 'n')

    def __init__(self, data):
        self.d = data
        self.i = 0
        self.n = len(data)

    def byte(self):
        i = self.i
        if i >= self.n:
            return 0
        self.i = i + 1
        return self.d[i]

    def exhausted(self):
        return self.i >= self.n

    def choice(self, n):
        """integer in [0, n)"""
        if n <= 1:
            return 0
        if n <= 256:
            return self.byte() * n >> 8
        if n <= 65536:
            return ((self.byte() << 8) | self.byte()) * n >> 16
        v = 0
        for _ in range(8):
            v = (v << 8) | self.byte()
        return v * n >> 64

    def int(self, lo, hi):
        """integer in [lo, hi]"""
        return lo + self.choice(hi - lo + 1)

    def bool(self, p256=128):
        """True with probability p256/256; False is the simple (shrunk) value"""
        return self.byte() >= 256 - p256

    def pick(self, seq):
        return seq[self.choice(len(seq))]

    def weighted(self, weights):
        """index chosen proportionally to integer weights (sum <= 256 recommended)"""
        tot = sum(weights)
        v = self.choice(tot)
        for i, w in enumerate(weights):
            if v < w:
                return i
            v -= w
        return len(weights) - 1

    def bytes(self, k):
        return bytes(self.byte() for _ in range(k))

    def u64(self):
        v = 0
        for _ in range(8):
            v = (v << 8) | self.byte()
        return v

    def small(self, mx=8):
        """geometric-ish small count in [0, mx], biased to small"""
        b = self.byte()
        if b < 96:
            return 0
        if b < 160:
            return min(1, mx)
        if b < 200:
            return min(2, mx)
        if b < 228:
            return min(3, mx)
        return min(4 + ((b - 228) * max(mx - 3, 1) >> 5), mx)
