"""Regenerate /verif/MANIFEST.json from the property modules that exist (python3 -m pyv.manifest)."""
import json, os, importlib, subprocess
VERIF = os.path.dirname(os.path.dirname(os.path.abspath(__file__)))
ALL = ['C%02d' % i for i in range(1, 21)]


def main():
    checks, na = [], []
    for pid in ALL:
        try:
            m = importlib.import_module('pyv.props.' + pid.lower())
        except ModuleNotFoundError:
            na.append({'property_id': pid, 'reason': 'check not built yet (planned, see DESIGN.md section 6); nothing is claimed for it so far'})
            continue
        p = m.PROP
        checks.append({
            'property_id': pid,
            'quick_cmd': './check %s quick' % pid,
            'thorough_cmd': './check %s thorough' % pid,
            'evidence_file': 'evidence/%s.json' % pid,
            'replay_cmd_template': './check %s --replay {path}' % pid,
            'engine': 'pyv',
            'level_claimed': {'category': p.level, 'text': p.level_text, 'design_ref': 'DESIGN.md section 6, ' + pid},
            'level_note': p.level_note,
            'technique': p.technique + (('; thorough tier: plus a coverage-guided cargo-fuzz / libFuzzer campaign on fuzzing/fuzz/fuzz_targets/%s.rs, '
                                         'whose semantic oracle runs inside the target (VERIF_FUZZ_SECONDS, default 300 s)') % p.fuzz_target
                                        if getattr(p, 'fuzz_target', None) else ''),
        })
    hooks = subprocess.run(['git', '-C', '/repo', 'log', '--format=%h %s'], capture_output=True, text=True).stdout.splitlines()
    hook_commits = [l.split()[0] for l in hooks if 'verif hook' in l]
    man = {
        'version': 1,
        'setup_cmd': 'python3 pyv/build.py A B C D',
        'hooks': {
            'guard': '--cfg rustpython_parser_verif',
            'enable': 'RUSTFLAGS="--cfg rustpython_parser_verif" cargo build (pyv/build.py sets it for every adapter build)',
            'baseline_off_cmd': 'cd /repo && cargo test --workspace --no-fail-fast --offline',
            'source_commits': hook_commits,
            'add_only': True,
        },
        'engines': [{
            'name': 'pyv', 'path': 'pyv/',
            'serves_properties': [c['property_id'] for c in checks],
            'kind_free_text': 'property-based testing: Hypothesis 6.168 (python3-vt, CPython 3.11 = reference implementation) decodes '
                              'generator choices from one fixed-size byte string per case and drives the Rust adapter harness/ (sut) built '
                              'from /repo\'s working tree in up to four feature configurations; explicit oracles per property; '
                              'cargo-fuzz targets for thorough tiers',
        }],
        'checks': checks,
        'not_applicable': na,
        'notes': 'Exit 0 = held on everything explored (KNOWN-FINDING lines allowed), 1 = VIOLATION, 2 = inconclusive (build failure / watchdog). '
                 'known_findings.json lists recorded and fixed defects; replays/ receives shrunk failing cases.',
    }
    json.dump(man, open(os.path.join(VERIF, 'MANIFEST.json'), 'w'), indent=1)
    print('MANIFEST.json: %d checks, %d not yet claimed' % (len(checks), len(na)))


if __name__ == '__main__':
    main()
