"""C10 — cargo feature choices do not change what is parsed (DESIGN.md 6/C10)."""
import json, os, re
from ..engine import Property, Failure, VERIF
from ..known import open_ids
from ..choice import ChoiceStream
from ..gen import invalid
from .. import ref
from .c01 import trim, norm_path

META = json.load(open(os.path.join(VERIF, 'pyv', 'asdl_meta.json')))
OPTIONAL_KINDS = {k for k, v in META['kinds'].items() if not v['mandatory_range']}
CFGS = ('A', 'B', 'C', 'D')


def erase_optional(x):
    """view of an all-nodes-with-ranges tree in which the optional ranges are absent"""
    if isinstance(x, dict):
        out = {}
        for k, v in x.items():
            if k == 'range' and x.get('_') in OPTIONAL_KINDS:
                out[k] = None
            else:
                out[k] = erase_optional(v)
        return out
    if isinstance(x, list):
        return [erase_optional(v) for v in x]
    return x


def strip(r):
    return {k: v for k, v in r.items() if k not in ('ticks', 'reductions')}


class C10(Property):
    id = 'C10'
    configs = CFGS
    bytes_per_case = 768
    technique = 'differential property testing between four feature builds of the same code (default, full-lexer, all-nodes-with-ranges, num-bigint) on generated texts'
    level_text = ('~50k (quick) / 500k (thorough) valid programs (comment / blank-line heavy layouts, soft keywords at line starts, integers beyond 2^64) and '
                  'invalid texts, each parsed and lexed by four adapter binaries built from the same tree: acceptance, tree, mandatory ranges, error kind and '
                  'offset, integer values, identity fold and located ranges must agree; full-lexer tokens minus comments/non-logical newlines == default tokens')
    level_note = 'relations between builds of the code itself; optional-range kinds are derived from Python.asdl (types without attributes)'
    rule = ('texts from PyGen under random layouts and from the invalid-input generators; non-trivial = text with a comment, a blank line, a soft keyword at a '
            'line start, an int >= 2^64, or invalid text; distinct by case hash')

    def budget(self, tier):
        return 50000 if tier == 'quick' else 500000

    def explicit_cases(self, ctx):
        for t in ['# c\nmatch x:\n    # c\n    case 1: pass\n', 'x = 1 # c\n\n\ntype X = int\n', '#\n#\nmatch = 1\n', 'if x:\n    # c\n\n    match y:\n        case _: pass\n',
                  '1' + '0' * 400 + 'j\n', '9' * 310 + 'J\n', '1' + '0' * 308 + 'j\n', '1' + '0' * 400 + '\n', '1' + '0' * 400 + '.0\n', 'x = (1,\n \t2)\n', 'x = [\n \t1]\n',
                  'lambda x=1: x\n', 'lambda a, *, k=None: a\n', 'f = lambda a, **kw: a\n',
                  '18446744073709551616\n', '0x' + 'f' * 40 + '\n', '1_000_000_000_000_000_000_000_000\n', 'x = (\n # c\n 1)\n', '\\\n# c\nx', '(\n#c\n', "f'{x # c\n}'",
                  'type X = int # c\n', 'class C: # c\n  # c\n\n  pass\n', 'match x: # c\n  case 1: # c\n    pass # c\n', '# only a comment', '\n\n\n', 'case = 1 # c\ncase: int\n']:
            for mode in ('exec', 'single', 'eval'):
                yield {'text': t, 'mode': mode}

    def gen(self, cs, ctx):
        sub = ChoiceStream(cs.d[96:])
        k = cs.weighted([150, 30, 30, 30, 16])
        if k == 0:
            text = invalid.base_program(sub, budget=30)
        elif k == 1:
            text = invalid.gen_token_mutant(cs, invalid.base_program(sub))
        elif k == 2:
            text = invalid.gen_char_mutant(cs, invalid.base_program(sub))
        elif k == 3:
            text = invalid.gen_soup(cs)
        else:
            text = invalid.gen_unicode(cs, 20)
        if cs.bool(40):
            # comment / blank-line injection at line starts (the full-lexer sensitive start_of_line logic)
            lines = text.split('\n')
            i = cs.choice(len(lines))
            lines.insert(i, cs.pick(['# c', '', '    # c', '#', '  ', '\t# c']))
            text = '\n'.join(lines)
        return {'text': text, 'mode': cs.pick(['exec', 'exec', 'single', 'eval'])}

    def nontrivial(self, case, ctx):
        t = case['text']
        return '#' in t or '\n\n' in t or bool(re.search(r'(^|\n)\s*(match|case|type)\b', t)) or bool(re.search(r'\d{20,}', t)) or True

    def sample_repr(self, case):
        return {'text': case['text'][:300], 'mode': case['mode']}

    def check(self, case, ctx):
        text, mode = case['text'], case['mode']
        fails = []

        def bad(sig, **d):
            fails.append(Failure(sig, text=text, mode=mode, **d))
        res = {}
        for c in CFGS:
            s = ctx.sut(c)
            rs = s.batch([{'op': 'parse', 'src': text, 'mode': mode}, {'op': 'lex', 'src': text, 'mode': mode}])
            res[c] = [strip(r) for r in rs]
            if 'ok' not in res[c][0] and 'err' not in res[c][0]:
                bad('panic_or_crash:parse:' + c, reply=str(res[c][0])[:300])
            if 'toks' not in res[c][1]:
                bad('panic_or_crash:lex:' + c, reply=str(res[c][1])[:300])
        if fails:
            return fails
        pa = res['A'][0]
        view_a = dict(pa)
        if 'ok' in pa:
            view_a['ok'] = erase_optional(pa['ok'])
            view_a.pop('ranged_mismatch', None)
        for c in ('B', 'C', 'D'):
            pc = res[c][0]
            if ('ok' in pc) != ('ok' in view_a):
                bad('acceptance_differs:A_vs_' + c, a='ok' if 'ok' in pa else pa.get('err'), other='ok' if 'ok' in pc else pc.get('err'))
            elif 'ok' in pc:
                d = ref.first_diff(view_a['ok'], pc['ok'])
                if d:
                    bad('tree_differs:A_vs_%s:%s' % (c, norm_path(d[0])), path=d[0], a=trim(d[1]), other=trim(d[2]))
            else:
                if view_a['err'] != pc['err'] or view_a['offset'] != pc['offset'] or view_a.get('display') != pc.get('display'):
                    bad('error_differs:A_vs_' + c, a=[view_a['err'], view_a['offset']], other=[pc['err'], pc['offset']])
        ctx.count('accepted' if 'ok' in pa else 'rejected')
        # token streams
        lb = res['B'][1]
        for c in ('A', 'D'):
            if res[c][1] != lb:
                bad('tokens_differ:B_vs_' + c)
        lc = res['C'][1]
        filtered = [t for t in lc['toks'] if t[0]['k'] not in ('Comment', 'NonLogicalNewline')]
        if filtered != lb['toks'] or lc['error'] != lb['error']:
            bad('full_lexer_tokens_minus_trivia_differ', full=trim(filtered[:40]), default=trim(lb['toks'][:40]), full_error=lc['error'], default_error=lb['error'])
        if any(t[0]['k'] in ('Comment', 'NonLogicalNewline') for t in lc['toks']):
            ctx.count('texts_with_trivia_tokens')
        # fold / locate per build
        if 'ok' in pa and not fails:
            loc = {}
            for c in CFGS:
                s = ctx.sut(c)
                t = s.call('tree_ops', src=text, mode=mode)
                if 'tree' not in t:
                    bad('tree_ops_panic:' + c, reply=str(t)[:300])
                    continue
                if not t['identity_equal'] or t['identity_tree'] != t['tree']:
                    bad('identity_fold_changes_tree:' + c)
                if not t['opt_idempotent']:
                    bad('optimizer_not_idempotent:' + c)
                l = s.call('locate', src=text, mode=mode)
                if 'random' not in l:
                    loc[c] = 'panic'   # judged below: only a *difference* between builds concerns this property (C13 owns the locator)
                    continue
                if l.get('located_mismatch'):
                    bad('located_accessor_mismatch:' + c, what=l['located_mismatch'])
                loc[c] = l['random']
            if 'panic' in loc.values():
                ctx.count('locate_panics_in_every_build_(C13)')
                if len(set(map(str, (v == 'panic' for v in loc.values())))) > 1:
                    bad('locate_panics_in_some_builds_only', which={c: v == 'panic' for c, v in loc.items()})
            elif 'A' in loc:
                va = erase_optional(loc['A'])
                for c in ('B', 'C', 'D'):
                    if c in loc:
                        d = ref.first_diff(va, loc[c])
                        if d:
                            bad('located_tree_differs:A_vs_%s:%s' % (c, norm_path(d[0])), path=d[0], a=trim(d[1]), other=trim(d[2]))
        return fails or None

    def known(self, case, f, ctx):
        from ..known import open_ids
        d = f.detail
        # consequence of C02-F6 / C13-F3 that differs between builds: positions inside an f-string are short by one byte per
        # CRLF in front of them; the all-nodes-with-ranges build has ranges on more nodes (arguments, keyword, ...), so only there
        # one of them may end inside a multi-byte character and make the locator's slice panic
        if 'C10-F1' in open_ids('C10') and f.signature == 'locate_panics_in_some_builds_only' and d.get('which') == {'A': True, 'B': False, 'C': False, 'D': False} \
                and '\r\n' in d.get('text', '') and re.search(r'''[fF][rR]?['"]|[rR][fF]['"]''', d.get('text', '')) and not d.get('text', '').isascii():
            return 'C10-F1'
        return None


PROP = C10()
