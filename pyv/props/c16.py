"""C16 — repr of text and bytes is a literal that decodes back to the same value (DESIGN.md 6/C16)."""
import ast, itertools, unicodedata
from ..engine import Property, Failure
from .. import valuegen as vg

U32 = unicodedata.ucd_3_2_0


_CAT10 = []


def category_unicode10(o):
    """General_Category in Unicode 10, the version of the table the library's printable test consults (pyv/data, copied from
    the unic-ucd-category crate's data file: data, not code under test)"""
    import bisect
    if not _CAT10:
        import os
        starts, rows = [], []
        for line in open(os.path.join(os.path.dirname(os.path.dirname(os.path.abspath(__file__))), 'data', 'general_category_unicode10.txt')):
            if line.startswith('#') or not line.strip():
                continue
            r, cat = line.split()
            a, b = r.split('..')
            starts.append(int(a, 16))
            rows.append((int(a, 16), int(b, 16), cat))
        _CAT10.extend([starts, rows])
    i = bisect.bisect_right(_CAT10[0], o) - 1
    if i >= 0 and _CAT10[1][i][0] <= o <= _CAT10[1][i][1]:
        return _CAT10[1][i][2]
    return 'Cn'


def stable_char(ch):
    """printable status independent of the Unicode version: ASCII, Latin-1, or the same general category in the two Unicode
    versions involved (the library's tables: 10.0, this interpreter's: 14.0) - among them every character assigned in
    Unicode 3.2 that kept its category"""
    o = ord(ch)
    if o < 0x100:
        return True
    if 0xD800 <= o <= 0xDFFF:
        return False
    now = unicodedata.category(ch)
    c32 = U32.category(ch)
    return (c32 != 'Cn' and c32 == now) or (now != 'Cn' and category_unicode10(o) == now)


def expected_quote(s_has_single, s_has_double, preferred="'"):
    other = '"' if preferred == "'" else "'"
    has_pref = s_has_single if preferred == "'" else s_has_double
    has_other = s_has_double if preferred == "'" else s_has_single
    return other if has_pref and not has_other else preferred


CLASSES = [
    "abcxyzABC019_ ~", "'", '"', "\\", "\x00\x01\x07\x08\t\n\x0b\x0c\r\x1b\x1f", "\x7f", "\x80\x85\xa0\xad\xff\xe9\xdf\xb5",
    "  　  ", "  ", "​‎⁠﻿­؜", "\U000f0000", "͸԰￿\U0001fffe",
    "́̈⃐", "中Ａあ가", "\U0001f600\U00010000\U0010ffff\U000e0001\U0001d11e", "٠²Ⅷ",
    "\x7f\x80\xff\u0100\u07ff\u0800\ud7ff\ue000\ufffd\ufffe\uffff\U00010000\U0001ffff\U000f0000\U0010fffe\U0010ffff",
]


class C16(Property):
    fuzz_target = 'fuzz_repr'
    id = 'C16'
    configs = ('A',)
    bytes_per_case = 96
    technique = 'property-based round-trip + differential testing against CPython repr()/ast.literal_eval (Hypothesis) with exhaustive bytes <= 2'
    level_text = ('all byte strings of length <= 2 (65,793) on every run, every single code point of the BMP in the thorough tier, and random '
                  'strings over 16 character classes with all quote mixes: repr must decode back (CPython literal_eval and this parser), use '
                  "Python's quote rule, match the precomputed layout length / changed(), and equal Python's repr on version-stable characters")
    level_note = ('trusts CPython repr()/ast.literal_eval; version-stable characters approximated by "assigned in Unicode 3.2 with unchanged '
                  'general category" (unicodedata.ucd_3_2_0)')
    rule = ('strings built from 16 classes (quotes, backslash, C0, DEL, Latin-1, Zs/Zl/Zp, Cf, private use, unassigned, combining, wide, astral, '
            'digits) and byte strings (exhaustive <= 2 bytes, random <= 200); non-trivial = value needing >= 1 escape or holding both quote kinds; '
            'distinct by case hash')

    def budget(self, tier):
        return 120000 if tier == 'quick' else 2000000

    def explicit_cases(self, ctx):
        # all byte strings of length <= 2, packed 256 per case
        yield {'k': 'bytes_many', 'items': ['']}
        yield {'k': 'bytes_many', 'items': ['%02x' % a for a in range(256)]}
        for a in range(256):
            yield {'k': 'bytes_many', 'items': ['%02x%02x' % (a, b) for b in range(256)]}
        # every BMP code point (no surrogates) alone (quick) and also in a quote context (thorough); the last code points of
        # the other planes and the neighbourhood of every plane border
        for base in range(0, 0x10000, 64):
            chars = [chr(c) for c in range(base, base + 64) if not 0xD800 <= c <= 0xDFFF]
            if chars:
                yield {'k': 'str_many', 'items': chars + ([c + "'" for c in chars] + ["'\"" + c for c in chars] if ctx.tier == 'thorough' else [])}
        yield {'k': 'str_many', 'items': [chr(p * 0x10000 + d) for p in range(1, 17) for d in (0, 1, 0xfffd, 0xfffe, 0xffff)]}
        for s in ['', "'", '"', "'\"", 'a\'b"c', '\\', '\n', 'é', '\x7f', '\xa0', '\xad', ' ', '\U0001f600', '\U0010ffff', '', '͸']:
            yield {'k': 'str', 's': s, 'mode': 'repr'}

    def gen(self, cs, ctx):
        if cs.bool(80):
            n = cs.choice(20) if cs.bool(200) else cs.choice(200)
            pool = cs.pick([None, b"'", b'"', b'\\\n\t\r', b'abc'])
            bs = bytearray()
            for _ in range(n):
                if pool is not None and cs.bool(100):
                    bs.append(cs.pick(pool))
                else:
                    bs.append(cs.byte())
            return {'k': 'bytes', 'b': bytes(bs).hex(), 'mode': cs.pick(['repr', 'repr', 'repr', 'pref_double', 'forced_single', 'forced_double', 'named:bytearray', 'named:x'])}
        if cs.bool(60):
            # characters drawn range by range from the category table (every run of equal category has the same weight, so a
            # small block of an unusual category is met as often as a large one), mixed with quotes and plain text
            category_unicode10(0)
            rows = _CAT10[1]
            out = []
            for _ in range(1 + cs.choice(8)):
                if cs.bool(60):
                    out.append(cs.pick(["'", '"', 'a', ' ', '\\']))
                else:
                    a, b, _cat = rows[cs.choice(len(rows))]
                    o = a + cs.choice(b - a + 1)
                    out.append(chr(o) if not 0xD800 <= o <= 0xDFFF else 'x')
            return {'k': 'str', 's': ''.join(out), 'mode': cs.pick(['repr', 'repr', 'repr', 'pref_double', 'forced_single', 'forced_double'])}
        nclasses = 1 + cs.choice(4)
        classes = [cs.pick(CLASSES) for _ in range(nclasses)]
        s = vg.gen_text(cs, 14, classes)
        return {'k': 'str', 's': s, 'mode': cs.pick(['repr', 'repr', 'repr', 'pref_double', 'forced_single', 'forced_double'])}

    def nontrivial(self, case, ctx):
        if case['k'] == 'str':
            s = case['s']
            return ("'" in s and '"' in s) or repr(s)[1:-1] != s
        if case['k'] == 'bytes':
            b = bytes.fromhex(case['b'])
            return (b"'" in b and b'"' in b) or repr(b)[2:-1] != b.decode('latin-1')
        return True

    def check(self, case, ctx):
        k = case['k']
        if k == 'bytes_many':
            for h in case['items']:
                f = self.check_bytes(h, 'repr', ctx)
                if f:
                    return f
            return None
        if k == 'str_many':
            for s in case['items']:
                f = self.check_str(s, 'repr', ctx)
                if f:
                    return f
            return None
        if k == 'bytes':
            return self.check_bytes(case['b'], case['mode'], ctx)
        return self.check_str(case['s'], case['mode'], ctx)

    def common(self, r, value_desc, body_len_bytes, src_len, has_single, has_double, mode):
        pref = '"' if mode == 'pref_double' else "'"
        q = expected_quote(has_single, has_double, pref)
        if mode.startswith('forced_'):
            q = "'" if mode == 'forced_single' else '"'      # the caller's quote, whatever the text holds
        if r['quote'] != q:
            return Failure('quote_choice', value=value_desc, got=r['quote'], expected=q, mode=mode)
        if r['len'] != body_len_bytes and not (mode.startswith('forced_') and r['len'] is None):
            # (a forced quote may leave the length unannounced; an announced length must be the written one)
            return Failure('layout_len', value=value_desc, layout_len=r['len'], actual_body_len=body_len_bytes, repr=r['repr'])
        if r['source_len'] != src_len:
            return Failure('source_len', value=value_desc)
        return None

    def check_str(self, s, mode, ctx):
        sut = ctx.sut('A')
        r = sut.call('str_repr', s=s, mode=mode)
        if 'repr' not in r:
            return Failure('str_repr_panic', s=s, reply=r)
        text = r['repr']
        ctx.count('str')
        if (r['to_string'] != text and not (r['len'] is None and r['to_string'] is None)) or (mode == 'repr' and r['const_display'] != text):
            return Failure('str_render_paths_differ', s=s, display=text, to_string=r['to_string'], const_display=r['const_display'])
        if not (len(text) >= 2 and text[0] == text[-1] == r['quote'] and text[1:-1] == r['body']):
            return Failure('str_repr_shape', s=s, got=text)
        f = self.common(r, s, len(r['body'].encode('utf-8')), len(s.encode('utf-8')), "'" in s, '"' in s, mode)
        if f:
            return f
        if r['changed'] != (r['body'] != s) and not (r['len'] is None and r['changed']):
            # (without an announced length "changed" is conservatively true; it must never be false for a body that differs)
            return Failure('changed_flag', s=s, changed=r['changed'], body=r['body'])
        # (1) valid Python literal evaluating to the value
        try:
            back = ast.literal_eval(text)
        except Exception as e:
            return Failure('str_repr_not_python_literal', s=s, got=text, error=repr(e))
        if back != s:
            return Failure('str_repr_wrong_value_python', s=s, got=text)
        # (2) this parser decodes it to the same value
        p = sut.call('typed', ty='Constant', src=text, how='parse')
        want = {'c': 'str', 'v': [ord(c) for c in s]}
        if p.get('ok') != want:
            return Failure('str_repr_wrong_value_this_parser', s=s, got=text, parsed=p)
        # (5) identical to Python's repr on version-stable characters (Python's quote preference is single)
        if mode == 'repr' and all(stable_char(c) for c in s):
            ctx.count('str_stable_text_compared')
            if text != repr(s):
                return Failure('str_repr_differs_from_python', s=s, got=text, expected=repr(s))
            # the classifier is only consulted by repr for non-ASCII characters: compare it there
            ns = ''.join(c for c in s if ord(c) >= 0x80)
            pr = sut.call('is_printable_bulk', s=ns)
            exp = [c.isprintable() for c in ns]
            if pr.get('ok') != exp:
                return Failure('is_printable', s=s, got=pr.get('ok'), expected=exp)
        return None

    def check_bytes(self, h, mode, ctx):
        sut = ctx.sut('A')
        b = bytes.fromhex(h)
        r = sut.call('bytes_repr', b=h, mode=mode)
        if 'repr' not in r:
            return Failure('bytes_repr_panic', b=h, reply=r)
        text = r['repr']
        ctx.count('bytes')
        if (r['to_string'] != text and not (r['len'] is None and r['to_string'] is None)) or (mode == 'repr' and r['const_display'] != text):
            return Failure('bytes_render_paths_differ', b=h, display=text, to_string=r['to_string'], const_display=r['const_display'])
        if not (len(text) >= 3 and text[0] == 'b' and text[1] == text[-1] == r['quote'] and text[2:-1] == r['body']):
            return Failure('bytes_repr_shape', b=h, got=text)
        f = self.common(r, h, len(r['body']), len(b), b"'" in b, b'"' in b, mode)
        if f:
            return f
        if r['changed'] != (r['body'].encode('latin-1', 'replace') != b) and not (r['len'] is None and r['changed']):
            return Failure('changed_flag', b=h, changed=r['changed'], body=r['body'])
        try:
            back = ast.literal_eval(text)
        except Exception as e:
            return Failure('bytes_repr_not_python_literal', b=h, got=text, error=repr(e))
        if back != b:
            return Failure('bytes_repr_wrong_value_python', b=h, got=text)
        p = sut.call('typed', ty='Constant', src=text, how='parse')
        if p.get('ok') != {'c': 'bytes', 'v': h}:
            return Failure('bytes_repr_wrong_value_this_parser', b=h, got=text, parsed=p)
        if mode == 'repr' and text != repr(b):
            return Failure('bytes_repr_differs_from_python', b=h, got=text, expected=repr(b))
        return None


PROP = C16()
