"""C17 — float text conversions round-trip and match Python's (DESIGN.md 6/C17)."""
import re, struct, decimal
from ..engine import Property, Failure
from ..known import open_ids
from .. import valuegen as vg


def bits(v):
    return '%016x' % struct.unpack('<Q', struct.pack('<d', v))[0]


def unbits(h):
    return struct.unpack('<d', struct.pack('<Q', int(h, 16)))[0]


FIXED_RE = re.compile(r'^-?\d+\.\d+$')
EXP_RE = re.compile(r'^-?\d(\.\d+)?e[+-]\d\d+$')


def sig_digits(text):
    t = text.lstrip('-')
    m = t.split('e')[0].replace('.', '')
    m = m.strip('0')
    return len(m) or 1


def py_float(s):
    try:
        return float(s)
    except (ValueError, OverflowError):
        return None


def py_fromhex(s):
    try:
        return float.fromhex(s)
    except (ValueError, OverflowError):
        return None


def same_float(bits_or_none, ref):
    if ref is None or bits_or_none is None:
        return ref is None and bits_or_none is None
    if ref != ref:
        got = unbits(bits_or_none)
        return got != got
    return bits_or_none == bits(ref)


HEXRE = re.compile(r'^\s*([+-])?(?:0[xX])?([0-9a-fA-F]*)(?:\.([0-9a-fA-F]*))?(?:[pP]([+-]?\d+))?\s*$')


def hex_reject_class(s):
    """why a string that float.fromhex accepts could be special: surrounding whitespace, and/or a
    value that is not exactly representable (float.fromhex rounds correctly)"""
    from fractions import Fraction
    out = ''
    if s != s.strip():
        out += '_ws'
    m = HEXRE.match(s)
    if m and (m.group(2) or m.group(3)):
        ip, fp, ex = m.group(2) or '', m.group(3) or '', int(m.group(4) or 0)
        if abs(ex) < 200000:
            exact = Fraction(int((ip + fp) or '0', 16)) * Fraction(2) ** (ex - 4 * len(fp))
            if Fraction(abs(float.fromhex(s))) != exact:
                out += '_inexact'
    return out


FLOAT_ALPHABET = "0123456789_.eE+- \tinfatyNIFAT\n\r\x0b\x0cxj"
HEX_ALPHABET = "0123456789abcdefABCDEFxXpP.+-_ \t\ninfatyNIFAT"


def gen_float_string(cs):
    """strings from Python's float() grammar (ASCII) and their near-misses"""
    k = cs.choice(10)
    if k == 0:
        core = cs.pick(['inf', 'infinity', 'nan', 'Inf', 'INFINITY', 'NaN', 'iNf', 'infinit', 'na', 'nane', 'in f'])
        s = cs.pick(['', '+', '-', '']) + core
    else:
        def digits(allow_empty=False):
            n = cs.choice(5) + (0 if allow_empty else 1)
            out = ''
            for i in range(n):
                out += cs.pick('0123456789')
                if i + 1 < n and cs.bool(40):
                    out += '_'
            return out
        s = cs.pick(['', '', '+', '-'])
        form = cs.choice(6)
        if form == 0:
            s += digits()
        elif form == 1:
            s += digits() + '.' + digits(True)
        elif form == 2:
            s += '.' + digits()
        elif form == 3:
            s += digits() + cs.pick('eE') + cs.pick(['', '+', '-']) + digits()
        elif form == 4:
            s += digits(True) + '.' + digits(True) + cs.pick('eE') + cs.pick(['', '+', '-']) + digits()
        else:
            # long / boundary magnitudes
            s += cs.pick(['1', '9', '17976931348623157', '4.9', '2.2250738585072014', '1.7976931348623159',
                          '8.98846567431158', '2.4703282292062327', '0.' + '0' * cs.choice(330) + '1',
                          '1' + '0' * cs.choice(320)]) + cs.pick(['', 'e308', 'e-308', 'e-324', 'e309', 'e-325', 'e0', 'E+3'])
    # near-miss mutations
    m = cs.choice(8)
    if m == 1 and s:
        i = cs.choice(len(s) + 1)
        s = s[:i] + cs.pick(FLOAT_ALPHABET) + s[i:]
    elif m == 2 and s:
        i = cs.choice(len(s))
        s = s[:i] + s[i + 1:]
    elif m == 3 and s:
        i = cs.choice(len(s))
        s = s[:i] + cs.pick('_._eE+-') + s[i + 1:]
    # surrounding whitespace
    if cs.bool(80):
        ws = [' ', '\t', '\n', '\r', '\x0c', '  ', '\x0b', '\x1c', '\x1f', '\x1d\x1e']
        s = cs.pick(ws) * cs.choice(2) + s + cs.pick(ws) * cs.choice(2)
    return s


def gen_hex_string(cs):
    k = cs.choice(8)
    if k == 0:
        s = cs.pick(['', '+', '-']) + cs.pick(['inf', 'infinity', 'nan', 'INF', 'NaN', 'Infinity', 'nanx', 'in'])
    else:
        def hd(lo):
            return ''.join(cs.pick('0123456789abcdefABCDEF') for _ in range(cs.choice(6) + lo))
        s = cs.pick(['', '', '+', '-']) + cs.pick(['0x', '0X', '', '0x', '0x1', '0x0'])
        form = cs.choice(4)
        if form == 0:
            s += hd(1)
        elif form == 1:
            s += hd(1) + '.' + hd(0)
        elif form == 2:
            s += '.' + hd(1)
        else:
            s += hd(0) + '.' + hd(0)
        if cs.bool(160):
            s += cs.pick('pP') + cs.pick(['', '+', '-']) + cs.pick(['0', '1', '10', '52', '1023', '1024', '1074', '1075', '2000', '3', '07'])
    m = cs.choice(8)
    if m == 1 and s:
        i = cs.choice(len(s) + 1)
        s = s[:i] + cs.pick(HEX_ALPHABET) + s[i:]
    elif m == 2 and s:
        i = cs.choice(len(s))
        s = s[:i] + s[i + 1:]
    if cs.bool(48):
        s = cs.pick([' ', '\t', '\n']) * cs.choice(2) + s + cs.pick([' ', '\t', '\n']) * cs.choice(2)
    return s


def gen_tie_string(cs, v=None):
    """decimal strings on / just beside the exact midpoint of two adjacent doubles (many significant digits):
    correct rounding needs arbitrary precision here"""
    from decimal import Decimal, getcontext
    getcontext().prec = 1200
    if v is None:
        v = abs(vg.gen_double(cs))
    if v != v or v == float('inf'):
        v = 1.0
    nxt = vg.f_from_bits(vg.bits_of(v) + 1)
    if nxt == float('inf'):
        nxt, v = v, vg.f_from_bits(vg.bits_of(v) - 1)
    mid = (Decimal(v) + Decimal(nxt)) / 2
    k = cs.choice(5)
    ulp = Decimal(nxt) - Decimal(v)
    if k == 1:
        mid = mid + ulp / Decimal(10 ** (5 + cs.choice(40)))
    elif k == 2:
        mid = mid - ulp / Decimal(10 ** (5 + cs.choice(40)))
    elif k == 3:
        mid = Decimal(v) + ulp / Decimal(10 ** (3 + cs.choice(30)))
    s = format(mid, 'f') if cs.bool() and abs(mid.adjusted()) < 40 else format(mid, 'e')
    if cs.bool(60) and len(s) > 25:
        s = s[:20 + cs.choice(len(s) - 20)] if 'e' not in s else s
    return ('-' if cs.bool(40) else '') + s


PRECS = list(range(0, 21)) + [30, 60]


class C17(Property):
    fuzz_target = 'fuzz_float'
    id = 'C17'
    configs = ('A',)
    bytes_per_case = 96
    technique = 'property-based differential testing against CPython float()/repr()/hex()/% (Hypothesis + exhaustive exponent sweep)'
    level_text = ('generated-input search: every biased exponent and power of ten enumerated on each run plus ~200k (quick) / 3M (thorough) '
                  'random structured doubles and numeric strings, each compared with CPython; finds divergences, does not prove absence')
    level_note = 'trusts CPython 3.11 as the reference for float text conversions and the JSON adapter (bit patterns are passed as hex)'
    rule = ('structured doubles (every biased exponent x {0,1,2^52-1,random mantissa}, 10^k and neighbours, 2^53 edge, '
            'repr switch points, %.nf ties, subnormals, specials, random bits) rendered by to_string/to_hex/format_* and '
            'candidate numeric / hex strings from the float() / fromhex() grammars with near-miss mutations; oracle = '
            'CPython float/repr/hex/fromhex/% ; non-trivial = double that is not a small integer, or string containing '
            'underscore/exponent/special/whitespace; distinct by case hash')
    assumptions = ['CPython 3.11 float(), repr(), float.hex(), float.fromhex() and % are the reference',
                   'to_string is required to be a shortest round-tripping rendering with Python\'s shape, not text-identical to repr']

    def budget(self, tier):
        return 200000 if tier == 'quick' else 3000000

    # ---- deterministic part: every exponent, every power of ten
    def explicit_cases(self, ctx):
        for v in vg.structured_doubles_exhaustive():
            yield {'k': 'double', 'v': bits(v), 'fmts': [['f', 6, False, False], ['e', 6, False, False], ['g', 6, False, False],
                                                         ['g', 17, False, False], ['e', 0, True, True], ['f', 0, False, True]]}
        for s in ['1', '1.0', ' 1', '1_0', '1__0', '_1', '1_', '1._5', '1e_5', 'inf', '-Infinity', 'nan', '+nan', '1e400', '-1e400',
                  '1e-400', '.', '', '+', 'e5', '1e', '1e+', '0x10', '1.5e3', ' \t\n1.5\r\n ', '١', 'infinity_', 'in_f', '1_000.000_1e1_0']:
            if all(ord(c) < 128 for c in s):
                yield {'k': 'parse', 's': s}
        # ties between adjacent doubles (exact midpoints and near misses) for a fixed set of doubles
        from ..choice import ChoiceStream
        for i, v in enumerate([1.0, 1.0000000000000002, 4503599627370498.0, 9007199254740992.0, 0.1, 1e22, 1e23, 5e-324, 2.2250738585072014e-308,
                               1.7976931348623155e308, 123456.789, 3.0e-5, 6.02214076e23, 8.5, 0.30000000000000004, 2.0 ** -1022, 2.0 ** 1000]):
            for j in range(12):
                yield {'k': 'parse', 's': gen_tie_string(ChoiceStream(bytes([j * 19 % 256, j * 53 % 256, i, j, 200, 7 * j % 256, 3, 9, 1])), v)}

    def gen(self, cs, ctx):
        k = cs.weighted([120, 60, 40, 26, 10])
        if k == 4:
            return {'k': 'parse', 's': gen_tie_string(cs)}
        if k == 0:
            v = vg.gen_double(cs)
            fm = []
            for _ in range(1 + cs.choice(3)):
                fm.append([cs.pick('feg'), cs.pick(PRECS), cs.bool(64), cs.bool(64)])
            return {'k': 'double', 'v': bits(v), 'fmts': fm}
        if k == 1:
            return {'k': 'parse', 's': gen_float_string(cs)}
        if k == 2:
            s = gen_hex_string(cs)
            if 'C17-F1' in open_ids('C17') and py_fromhex(s) is not None and '_inexact' in hex_reject_class(s):
                # open finding: excluded by construction, counted - but one in six is kept, so that anything other than the listed
                # rejection (a wrong value, a panic) inside that region is still reported
                if not cs.bool(42):
                    ctx.count('excluded[C17-F1]')
                    return None
                ctx.count('kept_inside_region[C17-F1]')
            return {'k': 'fromhex', 's': s}
        # tie-directed formatting: decimal text with a trailing 5 at precision p
        p = cs.choice(8)
        ip = cs.choice(2000)
        frac = ''.join(cs.pick('0123456789') for _ in range(p)) + '5'
        v = float('%d.%s' % (ip, frac)) * (1 if cs.bool() else -1)
        return {'k': 'double', 'v': bits(v), 'fmts': [[cs.pick('feg'), p, False, cs.bool(32)], ['g', p + len(str(ip)), False, False]]}

    def nontrivial(self, case, ctx):
        if case['k'] == 'double':
            v = unbits(case['v'])
            return not (v == v and abs(v) < 1000 and v == int(v)) if v == v and abs(v) != float('inf') else True
        return any(c in case['s'] for c in '_eEpPinIN \t')

    def check(self, case, ctx):
        sut = ctx.sut('A')
        k = case['k']
        if k == 'double':
            v = unbits(case['v'])
            reqs = [{'op': 'float_to_string', 'v': case['v']}, {'op': 'float_to_hex', 'v': case['v']}]
            # the printf-style renderers take a *magnitude*: every caller in format.rs / cformat.rs passes
            # abs(value) and adds the sign itself, so the sign is outside their domain
            mag = bits(abs(v))
            for fk, p, up, alt in case['fmts']:
                # %g: C treats precision 0 as 1; both callers (format.rs, cformat.rs) do that remapping
                # before calling format_general, so precision >= 1 is its domain
                reqs.append({'op': 'float_format', 'v': mag, 'kind': fk, 'prec': max(p, 1) if fk == 'g' else p, 'upper': up, 'alt': alt})
            rs = sut.batch(reqs)
            for r in rs:
                if 'ok' not in r:
                    return Failure('panic_or_crash', reply=r, v=repr(v))
            f = self.check_repr(v, rs[0]['ok'], ctx)
            if f:
                return f
            f = self.check_hex(v, rs[1]['ok'], ctx)
            if f:
                return f
            for (fk, p, up, alt), r in zip(case['fmts'], rs[2:]):
                spec = '%' + ('#' if alt else '') + '.' + str(p) + (fk.upper() if up else fk)
                exp = spec % abs(v)
                ctx.count('fmt_' + fk)
                if r['ok'] != exp:
                    return Failure('format_%s_mismatch' % fk, v=repr(v), spec=spec, got=r['ok'], expected=exp)
            return None
        if k == 'parse':
            s = case['s']
            exp = py_float(s)
            r1 = sut.call('float_parse_str', s=s)
            r2 = sut.call('float_parse_bytes', b=s.encode().hex())
            expb = py_float(s.encode())
            ctx.count('parse_accept' if exp is not None else 'parse_reject')
            for name, r, e in (('parse_str', r1, exp), ('parse_bytes', r2, expb)):
                if 'ok' not in r and 'panic' in r or 'crash' in r:
                    return Failure(name + '_panic', s=s, reply=r)
                if not same_float(r['ok'], e):
                    kind = 'rejects_valid' if r['ok'] is None else ('accepts_invalid' if e is None else 'wrong_value')
                    return Failure('%s_%s' % (name, kind), s=s, got=r['ok'], expected=None if e is None else bits(e))
            return None
        if k == 'fromhex':
            s = case['s']
            exp = py_fromhex(s)
            r = sut.call('float_from_hex', s=s)
            ctx.count('fromhex_accept' if exp is not None else 'fromhex_reject')
            if 'ok' not in r:
                return Failure('from_hex_panic', s=s, reply=r)
            if not same_float(r['ok'], exp):
                kind = 'rejects_valid' if r['ok'] is None else ('accepts_invalid' if exp is None else 'wrong_value')
                if kind == 'rejects_valid':
                    kind += hex_reject_class(s)
                return Failure('from_hex_' + kind, s=s, got=r['ok'], expected=None if exp is None else bits(exp))
            return None
        raise ValueError(k)

    def check_repr(self, v, text, ctx):
        if v != v:
            return None if text == 'nan' else Failure('repr_special', v='nan', got=text)
        if v in (float('inf'), float('-inf')):
            return None if text == ('inf' if v > 0 else '-inf') else Failure('repr_special', v=repr(v), got=text)
        back = py_float(text) if re.match(r'^[-0-9.e+]+$', text) else None
        if back is None or bits(back) != bits(v):
            return Failure('repr_not_roundtrip', v=repr(v), got=text)
        ref = repr(v)
        if sig_digits(text) != sig_digits(ref):
            return Failure('repr_not_shortest', v=ref, got=text)
        if v == 0:
            want_fixed = True
        else:
            e10 = decimal.Decimal(ref).adjusted()
            want_fixed = -4 <= e10 < 16
        if want_fixed:
            if not FIXED_RE.match(text):
                return Failure('repr_shape', v=ref, got=text, want='fixed')
        elif not EXP_RE.match(text):
            return Failure('repr_shape', v=ref, got=text, want='exponent')
        if text != ref:
            ctx.count('repr_text_differs_from_python_but_allowed')
        ctx.count('repr_fixed' if want_fixed else 'repr_exp')
        return None

    def check_hex(self, v, text, ctx):
        exp = v.hex()
        if text != exp:
            return Failure('to_hex_mismatch', v=repr(v), got=text, expected=exp)
        return None

    def known(self, case, f, ctx):
        ids = open_ids('C17')
        if 'C17-F1' in ids and case['k'] == 'fromhex' and f.signature in ('from_hex_rejects_valid_inexact', 'from_hex_rejects_valid_ws_inexact'):
            # (the same inexact value with blanks around it: blanks alone are accepted - a rejection of an *exact* padded value has
            # the signature from_hex_rejects_valid_ws and is not covered)
            return 'C17-F1'
        return None


PROP = C17()
