"""C06 — string, bytes and numeric literals decode to their Python values (DESIGN.md 6/C06)."""
import ast, itertools, unicodedata, re
from ..engine import Property, Failure
from ..known import open_ids
from ..choice import ChoiceStream
from ..gen import literals
from .. import ref
from .c01 import trim

PREFIXES = ['', 'r', 'R', 'u', 'U', 'b', 'B', 'br', 'Br', 'bR', 'BR', 'rb', 'rB', 'Rb', 'RB', 'f', 'F', 'fr', 'Fr', 'fR', 'FR', 'rf', 'rF', 'Rf', 'RF']
QUOTES = ["'", '"', "'''", '"""']
U32 = unicodedata.ucd_3_2_0


def stable_names(limit=None):
    out = []
    for cp in itertools.chain(range(0x20, 0x3000), range(0x4E00, 0x4E40), range(0x1D400, 0x1D420)):
        ch = chr(cp)
        try:
            n = U32.name(ch)
        except ValueError:
            continue
        try:
            if unicodedata.name(ch) == n and unicodedata.lookup(n) == ch:
                out.append(n)
        except (ValueError, KeyError):
            pass
    return out


ALIASES = ['LINE FEED', 'NULL', 'ESCAPE', 'NO-BREAK SPACE', 'BYTE ORDER MARK', 'LATIN CAPITAL LETTER GHA', 'NEXT LINE', 'CHARACTER TABULATION', 'LF', 'NBSP', 'ZWNBSP', 'BOM', 'ZWJ']
_ALL_NAMES = {}


def all_names():
    """every character name of this interpreter's Unicode database (names are never changed or removed by later versions)"""
    if not _ALL_NAMES:
        out = []
        for cp in range(0x110000):
            try:
                out.append(unicodedata.name(chr(cp)))
            except ValueError:
                pass
        _ALL_NAMES['all'] = out
        _ALL_NAMES['by_len'] = sorted(out, key=lambda n: (len(n), n))
    return _ALL_NAMES


class FakeGen:
    """minimal stand-in for PyGen when only literal generators are needed"""
    fstrings = False
    str_restrict = None

    def __init__(self):
        self.features = set()

    def feat(self, f):
        self.features.add(f)

    def excluded(self, fid):
        return fid in open_ids('C01')


class C06(Property):
    id = 'C06'
    configs = ('A', 'D')
    bytes_per_case = 256
    technique = ('exhaustive enumeration of the escape space (packed into literals) plus property-based generation of literal / number grammars, '
                 'differential against CPython constant values (bit-exact floats, exact integers)')
    level_text = ('every run enumerates: every one-character escape x {str, bytes, raw, f-string}, all 256 \\xHH, all 1-3 digit octal escapes, all 65,536 \\uXXXX, '
                  '\\U boundaries, ~2000 (quick) \\N{name} escapes with version-stable names, all 25 prefix spellings x 4 quote styles, line-break forms; then '
                  '~80k (quick) / 2M (thorough) random literals, concatenations and numbers (underscores, bases, exponents, boundary magnitudes), compared with '
                  'the value CPython computes, through parse() and through lex(), on the malachite and the num-bigint build')
    level_note = 'trusts CPython 3.11 literal evaluation; texts CPython rejects are outside this property (C04) and only counted'
    rule = ('enumerated escape tables + literal grammar (prefix x quotes x body pieces x concatenation) + number grammar; non-trivial = literal with an escape, '
            'a prefix, an underscore / exponent / base marker, or a concatenation; distinct by case hash')

    def budget(self, tier):
        return 80000 if tier == 'quick' else 2000000

    # ---------------------------------------------------------------- enumerations
    def explicit_cases(self, ctx):
        # one-character escapes \c for every ASCII c (and a few non-ASCII) in each literal kind
        for c in [chr(i) for i in range(128)] + ['é', '中', '\U0001f600', ' ', ' ']:
            for prefix in ('', 'b', 'r', 'rb', 'f', 'u'):
                if prefix in ('b', 'rb') and ord(c) > 127:
                    continue
                for q in ("'", '"""'):
                    if c in '\r\n' and len(q) == 1 and 'r' in prefix and False:
                        continue
                    yield {'src': '%s%s\\%sz%s' % (prefix, q, c, q)}
        for base in range(0, 256, 32):
            for prefix in ('', 'b'):
                yield {'src': prefix + "'" + ''.join('\\x%02x' % v for v in range(base, base + 32)) + "'"}
                yield {'src': prefix + "'" + ''.join('\\x%02X;' % v for v in range(base, base + 32)) + "'"}
        octs = ['%o' % v for v in range(8)] + ['%02o' % v for v in range(64)] + ['%03o' % v for v in range(512)]
        for i in range(0, len(octs), 32):
            for prefix in ('', 'b'):
                yield {'src': prefix + "'" + ''.join('\\%s;' % o for o in octs[i:i + 32]) + "'"}
                yield {'src': prefix + "'" + ''.join('\\%s8' % o for o in octs[i:i + 32]) + "'"}
        for base in range(0, 0x10000, 256):
            yield {'src': "'" + ''.join('\\u%04x' % v for v in range(base, base + 256)) + "'"}
        for base in (0, 0xD7F0, 0xDFF0, 0xFFF0, 0x1F600, 0x10FFF0, 0xE0000):
            yield {'src': "'" + ''.join('\\U%08x' % v for v in range(base, min(base + 16, 0x110000))) + "'"}
            yield {'src': "'" + ''.join('\\U%08X' % v for v in range(base, min(base + 16, 0x110000))) + "'"}
        names = stable_names()
        step = max(len(names) // (2000 if ctx.tier == 'quick' else 20000), 1)
        chosen = names[::step]
        for i in range(0, len(chosen), 16):
            grp = chosen[i:i + 16]
            yield {'src': "'" + ''.join('\\N{%s}' % n for n in grp) + "'"}
            yield {'src': "'" + ''.join('\\N{%s}' % n.lower() for n in grp) + "'"}
        for p in PREFIXES:
            for q in QUOTES:
                yield {'src': '%s%sa\\tb%s' % (p, q, q)}
                yield {'src': '%s%s%s' % (p, q, q)}
                if len(q) == 3:
                    for nl in ('\n', '\r\n', '\r'):
                        yield {'src': '%s%sa%sb\\%sc%s' % (p, q, nl, nl, q)}
                else:
                    for nl in ('\n', '\r\n', '\r'):
                        yield {'src': '%s%sa\\%sb%s' % (p, q, nl, q)}
        for s in ['0', '00', '0_0', '1_000', '0x_ff', '0XFF', '0o17', '0O_1_7', '0b101', '0B_1', '1e5', '1E+5', '1e-5', '1.5', '1.', '.5', '1_0.0_1e1_0', '1j', '1.5J', '1e5j', '0j', '.0j',
                  '9' * 400, '0x' + 'f' * 300, '0b' + '1' * 500, '1e308', '1e309', '1.7976931348623157e308', '1.7976931348623159e308', '5e-324', '2.4703282292062328e-324',
                  '2.4703282292062327e-324', '9007199254740993', '9007199254740993.0', '0.1', '1e22', '1e23', '8.5e-1', '123456789012345678901234567890e-10',
                  '1' + '0' * 400 + '.0', '0.' + '0' * 400 + '1', '1e-400', '00.5', '00e1', '0_1.5', '1_2j']:
            yield {'src': s}

    def gen(self, cs, ctx):
        k = cs.weighted([150, 106, 40])
        if k == 2:
            # \N{name} over every plane: the name of a random named code point, the shortest and longest names, name aliases;
            # in any letter case, in text and f-string literals, alone or between other pieces
            names = all_names()
            j = cs.choice(8)
            if j == 0:
                n = names['by_len'][cs.choice(40)]
            elif j == 1:
                n = names['by_len'][-1 - cs.choice(40)]
            elif j == 2:
                n = cs.pick(ALIASES)
            else:
                n = names['all'][cs.choice(len(names['all']))]
            form = cs.choice(4)
            n = n.lower() if form == 1 else (''.join(c.lower() if cs.bool() else c for c in n) if form == 2 else n)
            q = cs.pick(["'", '"', "'''", '"""'])
            pre, post = cs.pick(['', 'a', '\\n', 'é']), cs.pick(['', 'z', '\\x41', '{{' if False else ''])
            return {'src': '%s%s%s\\N{%s}%s%s' % (cs.pick(['', 'u', 'U', 'f', 'F']), q, pre, n, post, q)}
        if k == 0:
            g = FakeGen()
            toks = literals.gen_string_concat(cs, g, no_f=True)
            return {'src': ' '.join(t.s.replace(literals.NL, cs.pick(['\n', '\r\n', '\r'])) for t in toks)}
        j = cs.choice(6)
        if j == 0:
            # boundary magnitudes: a decimal near a random double boundary
            from .c17 import gen_tie_string
            s = gen_tie_string(cs).lstrip('-')
            if 'e' in s and cs.bool():
                s = s.replace('e', 'E')
            return {'src': s}
        return {'src': literals.gen_number(cs)}

    def nontrivial(self, case, ctx):
        s = case['src']
        return bool(re.search(r'\\|^[A-Za-z]|_|[eExXoObBjJ.]|[\'"]\s+[A-Za-z]*[\'"]', s))

    def sample_repr(self, case):
        return {'src': case['src'][:160]}

    def check(self, case, ctx):
        src = case['src']
        r = ref.ref_parse(src, 'eval')
        if r[0] != 'ok':
            ctx.count('reference_rejects_(C04)')
            return None
        fails = []
        want = ref.erase(r[1])
        for cfg in ('A', 'D'):
            s = ctx.sut(cfg)
            p = s.call('parse', src=src, mode='eval')
            if 'ok' not in p:
                fails.append(Failure('rejects_valid_literal:' + cfg if 'err' in p else 'panic:' + cfg, src=src, reply=str(p)[:300]))
                continue
            d = ref.first_diff(want, ref.erase(p['ok']))
            if d:
                fails.append(Failure('value_differs:%s:%s' % (cfg, d[0].split('/')[-1]), src=src, path=d[0], reference=trim(d[1], 300), got=trim(d[2], 300)))
            # the same value through the token stream (numbers)
            body = r[1]['body']
            if body['_'] == 'Constant' and body['value']['c'] in ('int', 'float', 'complex'):
                lx = s.call('lex', src=src, mode='eval')
                toks = [t for t in lx.get('toks', []) if t[0]['k'] in ('Int', 'Float', 'Complex')]
                v = body['value']
                exp = {'int': ('Int', v['v']), 'float': ('Float', v['v']), 'complex': ('Complex', v['v'])}[v['c']]
                if len(toks) != 1 or toks[0][0]['k'] != exp[0] or toks[0][0]['v'] != exp[1]:
                    fails.append(Failure('token_value_differs:' + cfg, src=src, got=trim(toks), expected=list(exp)))
            ctx.count('compared_' + cfg)
        return fails or None

    def known(self, case, f, ctx):
        ids = open_ids('C06')
        if 'C06-F1' in ids and f.signature.endswith('Constant.kind') and re.match(r'\s*U', case['src']):
            return 'C06-F1'
        return None


PROP = C06()
