"""C13 — row/column locations are correct and independent of the locator used (DESIGN.md 6/C13)."""
import re, zlib
from ..engine import Failure
from ..known import open_ids
from ..choice import ChoiceStream
from ..gen import invalid
from .. import ref
from .c01 import ProgramProperty, public, trim, norm_path


def compare_located(tree, located, lt, path, bad, counter):
    """tree: TextRange dump; located: SourceRange dump of the same shape"""
    if isinstance(tree, list):
        if not isinstance(located, list) or len(located) != len(tree):
            return bad('located_tree_shape', path=path)
        for i, (a, b) in enumerate(zip(tree, located)):
            compare_located(a, b, lt, '%s[%d]' % (path, i), bad, counter)
        return
    if not isinstance(tree, dict):
        if tree != located:
            bad('located_tree_leaf_changed', path=path)
        return
    if '_' in tree:
        if not isinstance(located, dict) or located.get('_') != tree['_']:
            return bad('located_tree_shape', path=path)
        r, l = tree.get('range'), located.get('range')
        if r is not None:
            counter[0] += 1
            exp = [list(lt.rowcol_chars(r[0])), list(lt.rowcol_chars(r[1]))]
            if l != exp:
                bad('wrong_location:' + tree['_'], path=path, byte_range=r, got=l, expected=exp)
        elif l is not None:
            bad('location_for_absent_range', path=path)
    for k, v in tree.items():
        if k in ('_', 'range'):
            continue
        compare_located(v, located.get(k) if isinstance(located, dict) else None, lt, path + '/' + str(tree.get('_', '')) + '.' + k, bad, counter)


def has_param_default(x):
    if isinstance(x, dict):
        if x.get('_') == 'arg_with_default' and x.get('default') is not None:
            return True
        return any(has_param_default(v) for v in x.values())
    if isinstance(x, list):
        return any(has_param_default(v) for v in x)
    return False


def has_empty_lambda(x):
    if isinstance(x, dict):
        if x.get('_') == 'Lambda':
            a = x.get('args') or {}
            if not (a.get('posonlyargs') or a.get('args') or a.get('vararg') or a.get('kwonlyargs') or a.get('kwarg')):
                return True
        return any(has_empty_lambda(v) for v in x.values())
    if isinstance(x, list):
        return any(has_empty_lambda(v) for v in x)
    return False


def has_shared_withitems(x):
    if isinstance(x, dict):
        if x.get('_') in ('With', 'AsyncWith'):
            rs = [tuple(i.get('range') or ()) for i in x.get('items', [])]
            if len(rs) != len(set(rs)):
                return True
        return any(has_shared_withitems(v) for v in x.values())
    if isinstance(x, list):
        return any(has_shared_withitems(v) for v in x)
    return False


class C13(ProgramProperty):
    fuzz_target = 'fuzz_locate'

    def fuzz_seeds(self):
        from ..fuzz import program_seeds
        return program_seeds()

    id = 'C13'
    configs = ('B', 'A')
    technique = ('differential property testing (PyGen programs with non-ASCII, mixed line endings, BOM and out-of-source-order constructs): linear locator vs '
                 'random-access locator vs a naive line/character model vs CPython lineno/col, plus error-offset conversion')
    level_text = ('~40k (quick) / 300k (thorough) generated programs: every node of the located tree must carry the 1-based line and character column of its byte '
                  'range (CR, LF, CRLF each one break, multi-byte characters one column, BOM not counted) under both locators - a panic of the linear '
                  "locator's debug self-check is a failure - and agree with CPython's lineno / column for positioned nodes; error offsets convert the same way")
    level_note = 'trusts the naive model (universal-newline line table + character count) and CPython 3.11 positions; default build, and all-nodes-with-ranges in thorough'
    rule = ('PyGen programs under random layouts + invalid texts for error locations; non-trivial = >= 3 lines and one of {non-ASCII before a node, CR/CRLF, BOM, '
            'out-of-order construct (keyword before starred argument, class keyword before starred base, dict unpacking, conditional expression, decorator, '
            'f-string)}; distinct by case hash')

    def budget(self, tier):
        return 40000 if tier == 'quick' else 300000

    def avoid(self):
        return {'C13-F1'}

    def open(self):
        return open_ids('C13')

    def explicit_cases(self, ctx):
        for t in ['x = 1\n', 'é = 1\nβ = é\n', '﻿x = 1\ny = 2\n', 'a\r\nb\rc\nd', 'f(k=1, *b)\n', 'f(\n k=1,\n *b)\n', 'class C(k=1, *b): pass\n', 'class C(\n k=1,\n *b): pass\n',
                  '{**a, b: c}\n', '{\n**a,\n b: c}\n', 'x if y else z\n', '(x\n if y\n else z)\n', '@d\n@e\ndef f(): pass\n', "f'{x}'\n", "f'''a\n{x}\n{y}'''\n", "('a'\n f'{x}'\n 'b')\n",
                  "x = ('é' f'{é}'\n 'b' f'{y}')\n", 'def f(a, b=1, *c, d, e=2, **g): pass\n', 'match x:\n case {1: a, **r}: pass\n', 'é' * 30 + ' = 1\n', 'x = "中" + y\n',
                  'with a as b, c as d: pass\n', 'lambda a, b=1: 0\n', 'def f[T: int, *Ts](x): pass\n', 'type X[T] = list[T]\n']:
            yield {'text': t, 'mode': 'exec', 'py312': 'type X' in t or 'f[T' in t}
        for t in ['x = (', 'é = $', 'a\r\nb = $\n', '﻿x = $', 'if x:\n  y\n z\n', "'abc", 'x\n  y\n', '中中 = (]\n']:
            yield {'text': t, 'mode': 'exec', 'py312': False, 'error': True}

    def gen(self, cs, ctx):
        if cs.bool(24):
            sub = ChoiceStream(cs.d[64:])
            text = invalid.gen_char_mutant(cs, invalid.base_program(sub)) if cs.bool() else invalid.gen_token_mutant(cs, invalid.base_program(sub))
            return {'text': text, 'mode': 'exec', 'py312': False, 'error': True}
        case = self.gen_program(cs, ctx, py312_p=30)
        return public(case)

    def nontrivial(self, case, ctx):
        t = case['text']
        return t.count('\n') + t.count('\r') >= 2 and ((not t.isascii()) or '\r' in t or bool(re.search(r'=[^=].*\*|\*\*|\bif\b.*\belse\b|@|[fF][\'"]', t)))

    def check(self, case, ctx):
        text = case['text']
        data = text.encode('utf-8')
        lt = ref.LineTable(data)
        fails = []
        # quick: the all-nodes-with-ranges build on a quarter of the cases (and on every explicit case / witness)
        both = ctx.tier != 'quick' or case.get('cfgA') or len(text) < 60 or zlib.crc32(data) % 4 == 0
        cfgs = ('B', 'A') if both else ('B',)
        for cfg in cfgs:
            sut = ctx.sut(cfg)
            r = sut.call('locate', src=text, mode=case['mode'])
            extra = {}
            if cfg == 'A':
                # C13-F4's region: a parameter with a default in the build where arg_with_default carries a range
                tr = r.get('tree')
                if tr is None and 'err' not in r:
                    tr = sut.call('parse', src=text, mode=case['mode']).get('ok')
                extra['param_default'] = has_param_default(tr)
                extra['empty_lambda'] = has_empty_lambda(tr)
                extra['shared_withitem_range'] = has_shared_withitems(tr)

            def bad(sig, **d):
                fails.append(Failure(sig + ':' + cfg, text=text, mode=case['mode'], **dict(extra, **d)))
            if 'tree' not in r:
                if 'err' not in r:
                    bad('panic_or_crash', reply=str(r)[:300])
                    continue
                # error offsets convert the same way
                off = r['err_offset']
                if not (0 <= off <= len(data)) or (off < len(data) and (data[off] & 0xC0) == 0x80):
                    ctx.count('error_offset_unusable_(C03)')
                    continue
                exp = list(lt.rowcol_chars(off))
                ctx.count('error_locations')
                if r['err_random'] != exp:
                    bad('error_location_random', offset=off, got=r['err_random'], expected=exp)
                if r['err_linear'] != exp:
                    bad('error_location_linear', offset=off, got=r['err_linear'], expected=exp)
                if r['python_location'] != [exp[0], exp[1]]:
                    bad('error_python_location', got=r['python_location'], expected=exp)
                continue
            if r.get('located_mismatch'):
                bad('located_accessor_mismatch', what=r['located_mismatch'])
            n = [0]
            compare_located(r['tree'], r['random'], lt, '', lambda sig, **d: bad('random_locator_' + sig, **d), n)
            ctx.count('located_nodes', n[0])
            lin = r['linear']
            if isinstance(lin, dict) and 'panic' in lin:
                bad('linear_locator_panics', message=lin['panic'][:200])
            else:
                d = ref.first_diff(r['random'], lin)
                if d:
                    bad('linear_differs_from_random:' + norm_path(d[0]), path=d[0], random=trim(d[1]), linear=trim(d[2]))
            # CPython's own lineno / col for positioned nodes whose byte range agrees (otherwise C02's subject)
            if cfg == cfgs[0]:
                rr = self.reference(case, ctx)
                if rr and rr[0] == 'ok':
                    self.vs_cpython(rr[1], r['tree'], r['random'], case, lt, bad, ctx)
        return fails or None

    def vs_cpython(self, want, tree, located, case, lt, bad, ctx):
        import ast as _ast
        # re-derive CPython's (lineno, character column) directly from its own attributes
        text = case['text']
        if case.get('py312'):
            return
        try:
            t = _ast.parse(text.encode('utf-8') if text.startswith('﻿') else text, mode='exec' if case['mode'] != 'eval' else 'eval')
        except Exception:
            return
        lines = ref.LineTable(text.encode('utf-8'))
        data = text.encode('utf-8')
        pos = {}
        for node in _ast.walk(t):
            if hasattr(node, 'lineno') and getattr(node, 'end_lineno', None) is not None:
                a = lines.off(node.lineno, node.col_offset)
                ls = lines.starts[node.lineno - 1] + (lines.bom if node.lineno == 1 else 0)
                col = len(data[ls:a].decode('utf-8', 'replace')) + 1
                pos.setdefault(a, set()).add((node.lineno, col))

        def walk(tr, lo):
            if isinstance(tr, dict):
                if '_' in tr and tr.get('range') and isinstance(lo, dict) and lo.get('range'):
                    a = tr['range'][0]
                    if a in pos:
                        ctx.count('nodes_compared_with_cpython')
                        start = tuple(lo['range'][0])
                        if start not in pos[a]:
                            bad('location_differs_from_cpython:' + tr['_'], byte_start=a, got=list(start), cpython=sorted(pos[a]))
                for k, v in tr.items():
                    if k not in ('_', 'range'):
                        walk(v, lo.get(k) if isinstance(lo, dict) else None)
            elif isinstance(tr, list) and isinstance(lo, list):
                for x, y in zip(tr, lo):
                    walk(x, y)
        walk(tree, located)

    def known(self, case, f, ctx):
        ids = open_ids('C13')
        sig, d, t = f.signature, f.detail, case['text']
        if 'C13-F1' in ids and sig.startswith(('linear_locator_panics', 'linear_differs_from_random')) and self.class_kw_before_star(t):
            return 'C13-F1'
        if 'C13-F4' in ids and sig.endswith(':A') and d.get('param_default') and (sig.startswith(('linear_locator_panics', 'linear_differs_from_random')) or
                                                                                 sig.startswith('panic_or_crash') and ' -> ' in str(d.get('reply'))):
            return 'C13-F4'
        if 'C13-F5' in ids and sig.endswith(':A') and d.get('empty_lambda') and (sig.startswith(('linear_locator_panics', 'linear_differs_from_random')) or
                                                                                 sig.startswith('panic_or_crash') and ' -> ' in str(d.get('reply'))):
            return 'C13-F5'
        if 'C13-F6' in ids and sig.endswith(':A') and d.get('shared_withitem_range') and (sig.startswith(('linear_locator_panics', 'linear_differs_from_random')) or
                                                                                          sig.startswith('panic_or_crash') and ' -> ' in str(d.get('reply'))):
            return 'C13-F6'
        if 'C13-F2' in ids and sig.startswith('linear_differs_from_random') and 'FormattedValue' in d.get('path', '') and 'JoinedStr' in d.get('path', '') \
                and self.has_concatenation(t):
            # (the finding is about implicitly concatenated literals: without one in the text it is something else)
            return 'C13-F2'
        if 'C13-F3' in ids and '\r\n' in t and sig.startswith('error_location_') and isinstance(d.get('offset'), int) and \
                t.encode('utf-8')[d['offset'] - 1:d['offset'] + 1] == b'\r\n' and re.search(r'''['"]''', t):
            # the error offset itself is the shifted one of C03-F2 (short by one byte per CRLF inside the string token) and has
            # landed between the CR and the LF of a line end: no line/column is right for it, and the linear locator's self-check trips
            return 'C13-F3'
        if 'C13-F3' in ids and '\r\n' in t and re.search(r'''[fF][rR]?['"]|[rR][fF]['"]''', t) and \
                (sig.startswith('panic_or_crash') and 'char boundary' in str(d.get('reply')) or 'JoinedStr' in d.get('path', '') or
                 sig.startswith(('linear_locator_panics', 'location_differs_from_cpython'))):
            return 'C13-F3'
        return None

    _CONCAT = None

    @classmethod
    def has_concatenation(cls, t):
        """two string literals with nothing but layout between them, somewhere in the text"""
        from .c02 import C02
        if cls._CONCAT is None:
            C13._CONCAT = re.compile(C02._STR.pattern + rb'(?:' + C02._LAY.pattern + rb')?' + C02._STR.pattern)
        return bool(cls._CONCAT.search(t.encode('utf-8')))

    @staticmethod
    def class_kw_before_star(t):
        return bool(re.search(r'class\s+\w+\s*(\[[^\]]*\])?\s*\([^)]*\w\s*=[^)]*,\s*\*', t, re.S))


PROP = C13()
