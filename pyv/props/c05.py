"""C05 — the token stream tiles the source: nothing dropped, nothing misplaced (DESIGN.md 6/C05)."""
import io, re, struct, tokenize, bisect
from ..engine import Property, Failure
from ..known import open_ids
from ..choice import ChoiceStream
from ..gen import invalid
from ..gen.pygen import PyGen
from ..gen.layout import render, Layout

# spelling table written from the language reference (operators, delimiters, keywords) - not copied from token.rs
SPELL = {
    'Lpar': '(', 'Rpar': ')', 'Lsqb': '[', 'Rsqb': ']', 'Lbrace': '{', 'Rbrace': '}', 'Colon': ':', 'Comma': ',', 'Semi': ';', 'Plus': '+', 'Minus': '-',
    'Star': '*', 'Slash': '/', 'Vbar': '|', 'Amper': '&', 'Less': '<', 'Greater': '>', 'Equal': '=', 'Dot': '.', 'Percent': '%', 'EqEqual': '==',
    'NotEqual': '!=', 'LessEqual': '<=', 'GreaterEqual': '>=', 'Tilde': '~', 'CircumFlex': '^', 'LeftShift': '<<', 'RightShift': '>>', 'DoubleStar': '**',
    'DoubleStarEqual': '**=', 'PlusEqual': '+=', 'MinusEqual': '-=', 'StarEqual': '*=', 'SlashEqual': '/=', 'PercentEqual': '%=', 'AmperEqual': '&=',
    'VbarEqual': '|=', 'CircumflexEqual': '^=', 'LeftShiftEqual': '<<=', 'RightShiftEqual': '>>=', 'DoubleSlash': '//', 'DoubleSlashEqual': '//=',
    'ColonEqual': ':=', 'At': '@', 'AtEqual': '@=', 'Rarrow': '->', 'Ellipsis': '...',
    'False': 'False', 'None': 'None', 'True': 'True', 'And': 'and', 'As': 'as', 'Assert': 'assert', 'Async': 'async', 'Await': 'await', 'Break': 'break',
    'Class': 'class', 'Continue': 'continue', 'Def': 'def', 'Del': 'del', 'Elif': 'elif', 'Else': 'else', 'Except': 'except', 'Finally': 'finally',
    'For': 'for', 'From': 'from', 'Global': 'global', 'If': 'if', 'Import': 'import', 'In': 'in', 'Is': 'is', 'Lambda': 'lambda', 'Nonlocal': 'nonlocal',
    'Not': 'not', 'Or': 'or', 'Pass': 'pass', 'Raise': 'raise', 'Return': 'return', 'Try': 'try', 'While': 'while', 'Match': 'match', 'Type': 'type',
    'Case': 'case', 'With': 'with', 'Yield': 'yield',
}
OPEN, CLOSE = {'Lpar', 'Lsqb', 'Lbrace'}, {'Rpar', 'Rsqb', 'Rbrace'}
PREFIX_KIND = {'': 'String', 'r': 'RawString', 'u': 'Unicode', 'f': 'FString', 'b': 'Bytes', 'rf': 'RawFString', 'fr': 'RawFString', 'rb': 'RawBytes', 'br': 'RawBytes'}
GAP_DEFAULT = re.compile(r'(?:[ \t\x0c]|\\(?:\r\n|\r|\n)|#[^\r\n]*+|\r\n|\r|\n)*+\Z')   # possessive: linear time on texts that do not match
GAP_FULL = re.compile(r'(?:[ \t\x0c]|\\(?:\r\n|\r|\n))*\Z')
JOIN = re.compile(r'\\(?:\r\n|\r|\n)')
HAS_BARE_EOL = re.compile(r'\r|\n')
STRING_RE = re.compile(r'''(?s)([A-Za-z]{0,2})("""|\'\'\'|"|')(.*)\2\Z''')


def fbits(f):
    return '%016x' % struct.unpack('<Q', struct.pack('<d', f))[0]


def fold_eol(s):
    return s.replace('\r\n', '\n').replace('\r', '\n')


def check_stream(text, toks, full, bad, ctx):
    data = text.encode('utf-8')
    n = len(data)
    bset = {i for i in range(n + 1) if i == n or (data[i] & 0xC0) != 0x80}
    prev_end = 0
    depth = 0
    indents = 0
    prev_kind = None
    gap_re = GAP_FULL if full else GAP_DEFAULT
    for idx, (tok, a, b) in enumerate(toks):
        kind = tok['k']
        if not (0 <= a <= b <= n):
            return bad('token_range_outside_input', tok=tok, range=[a, b])
        if a not in bset or b not in bset:
            return bad('token_range_not_on_char_boundary', tok=tok, range=[a, b])
        if a < prev_end:
            return bad('token_ranges_overlap_or_out_of_order', tok=tok, range=[a, b], prev_end=prev_end)
        gap = data[prev_end:a].decode('utf-8')
        if idx == 0 and gap.startswith('﻿'):
            gap = gap[1:]
        if not gap_re.match(gap):
            return bad('gap_holds_more_than_whitespace_comments_joins' + ('_full_lexer' if full else ''), gap=gap, before=tok, at=prev_end)
        if not full and depth == 0 and prev_kind not in (None, 'Newline', 'Indent', 'Dedent') and HAS_BARE_EOL.search(JOIN.sub('', gap)):
            return bad('line_break_outside_brackets_without_NEWLINE', gap=gap, before=tok, at=prev_end)
        src = data[a:b].decode('utf-8')
        # ---- spelling
        if kind in SPELL:
            if src != SPELL[kind]:
                return bad('token_text_is_not_its_spelling', tok=tok, tok_text=src)
        elif kind == 'Name':
            if src != tok['name']:
                return bad('name_value_is_not_its_text', tok=tok, tok_text=src)
        elif kind == 'Int':
            digits = src.replace('_', '')
            try:
                v = int(digits, 0) if not re.fullmatch(r'0+', digits) else 0
            except ValueError:
                return bad('int_token_text_is_not_a_number', tok=tok, tok_text=src)
            if str(v) != tok['v']:
                return bad('int_value_is_not_the_value_of_its_digits', tok=tok, tok_text=src)
        elif kind == 'Float':
            try:
                v = float(src.replace('_', ''))
            except ValueError:
                return bad('float_token_text_is_not_a_number', tok=tok, tok_text=src)
            if fbits(v) != tok['v']:
                return bad('float_value_is_not_the_value_of_its_digits', tok=tok, tok_text=src)
        elif kind == 'Complex':
            try:
                v = complex(src.replace('_', ''))
            except ValueError:
                return bad('complex_token_text_is_not_a_number', tok=tok, tok_text=src)
            if [fbits(v.real), fbits(v.imag)] != tok['v']:
                return bad('complex_value_is_not_the_value_of_its_digits', tok=tok, tok_text=src)
        elif kind == 'String':
            m = STRING_RE.match(src)
            if not m:
                return bad('string_token_does_not_cover_prefix_and_quotes', tok=tok, tok_text=src)
            prefix, q, body = m.group(1).lower(), m.group(2), m.group(3)
            if PREFIX_KIND.get(prefix) != tok['kind'] or (len(q) == 3) != tok['triple']:
                return bad('string_kind_or_triple_flag_wrong', tok=tok, tok_text=src)
            if fold_eol(body) != tok['value']:
                return bad('string_value_is_not_its_inner_text', tok=tok, tok_text=src)
        elif kind == 'Newline':
            if src not in ('\n', '\r\n', '\r', ''):
                return bad('newline_token_text', tok=tok, tok_text=src)
            if depth != 0:
                return bad('NEWLINE_inside_brackets', at=a)
        elif kind == 'Indent':
            if src.strip(' \t\x0c') != '' or prev_kind not in ('Newline', None, 'Dedent', 'Indent', 'Comment', 'NonLogicalNewline'):
                return bad('INDENT_not_at_line_start_or_not_whitespace', tok=tok, tok_text=src, prev=prev_kind)
            # its range is the line's leading whitespace: it starts right after a line break (or at the start of the text /
            # after a form feed) and ends where the first token of the line starts
            before = data[:a].decode('utf-8')
            if before and before[-1] not in '\r\n\x0c' and before.lstrip('\ufeff') != '':
                return bad('INDENT_range_does_not_start_at_the_line_start', tok=tok, range=[a, b])
            indents += 1
        elif kind == 'Dedent':
            if a != b or prev_kind not in ('Newline', 'Dedent', 'Comment', 'NonLogicalNewline'):
                return bad('DEDENT_not_empty_or_not_at_line_start', range=[a, b], prev=prev_kind)
            indents -= 1
            if indents < 0:
                return bad('DEDENT_without_INDENT', at=a)
        elif kind == 'Comment':
            if src != tok['v'] or not src.startswith('#') or '\n' in src or '\r' in src:
                return bad('comment_token_text', tok=tok, tok_text=src)
        elif kind == 'NonLogicalNewline':
            if src not in ('\n', '\r\n', '\r'):
                return bad('non_logical_newline_text', tok=tok, tok_text=src)
        elif kind == 'EndOfFile':
            if a != b:
                return bad('EOF_token_not_empty', range=[a, b])
        else:
            return bad('unexpected_token_kind', tok=tok)
        if kind in OPEN:
            depth += 1
        elif kind in CLOSE:
            depth -= 1
        if kind not in ('Comment', 'NonLogicalNewline') or True:
            prev_kind = kind
        prev_end = b
    tail = data[prev_end:].decode('utf-8')
    if not toks and tail.startswith('﻿'):
        tail = tail[1:]
    if not gap_re.match(tail):
        return bad('text_after_last_token_not_covered', tail=tail[:80])
    if indents != 0:
        return bad('INDENT_without_DEDENT_at_end', open=indents)
    return None


def py_tokens(text):
    """significant tokens (NAME NUMBER STRING OP) of CPython's tokenizer as (text, start_byte, end_byte)"""
    data = text.encode('utf-8')
    out = []
    lines = data.split(b'\n')
    starts = [0]
    for l in lines[:-1]:
        starts.append(starts[-1] + len(l) + 1)
    bom = 3 if data.startswith(b'\xef\xbb\xbf') else 0
    linetexts = [l.decode('utf-8') for l in lines]
    if bom:
        linetexts[0] = linetexts[0][1:]

    def off(row, col):
        lt = linetexts[row - 1] if row - 1 < len(linetexts) else ''
        return starts[row - 1] + len(lt[:col].encode('utf-8')) + (bom if row == 1 else 0)
    for t in tokenize.tokenize(io.BytesIO(data).readline):
        if t.type in (tokenize.NAME, tokenize.NUMBER, tokenize.STRING, tokenize.OP):
            out.append((t.string, off(*t.start), off(*t.end)))
    return out


class C05(Property):
    fuzz_target = 'fuzz_tokens'

    def fuzz_seeds(self):
        # raw-mode inputs (first byte has bit 7 set): mode selector, offset selector, then the text
        from ..gen.invalid import FAMILIES
        texts = ['x = 1\n', 'def f(a, *b, c=1, **d):\n    return a\n', 'match x:\n    case [1, *r] if r: pass\n', 'class C(B, k=1):\n  @d\n  async def f(self): await x\n',
                 "f'{x!r:>{w}}' 'a' b'c'\n", 'try:\n  pass\nexcept* E as e:\n  raise\nfinally:\n  pass\n', 'with (a as b, c): pass\n', 'type X[T] = list[T]\n', 'x = [i for i in y if i]\n',
                 'lambda *a, k=1: (yield)\n', 'if x:\n\ty\nelse:\n\tz\n', '\ufeffx = "\\N{DIGIT ONE}"\r\n']
        texts += [FAMILIES[n](12) for n in sorted(FAMILIES)]
        out = []
        for i, t in enumerate(texts):
            out.append(bytes([0x80 | (i % 3), i % 6]) + t.encode('utf-8'))
        return out
    id = 'C05'
    configs = ('B', 'C')
    bytes_per_case = 1024
    technique = ("property-based testing (PyGen programs under random layouts + mutants that still lex): tiling / spelling / NEWLINE-INDENT-DEDENT invariants in "
                 "both lexer configurations and a differential against CPython's tokenize")
    level_text = ('~80k (quick) / 500k (thorough) texts that lex without error, in the default and the full-lexer build: token ranges inside the input, on char '
                  'boundaries, ordered and disjoint; every gap only whitespace / comments / backslash joins (no comment or bare newline at all under full-lexer); '
                  "each token's text spells it (operator and keyword table from the language reference; numbers by Python's own int/float/complex); NEWLINE only "
                  "outside brackets; INDENT/DEDENT balanced and at line starts; significant tokens equal CPython tokenize's on LF/CRLF texts")
    level_note = "trusts CPython's int()/float()/complex() and tokenize; the check stops at the first lexical error of a text (error-free prefixes are still checked)"
    rule = ('texts from PyGen under random layouts and from the invalid-input generators that lex successfully; non-trivial = >= 10 tokens and one of '
            '{INDENT, string, continuation, comment, non-ASCII, CR/CRLF}; distinct by case hash')

    def budget(self, tier):
        return 80000 if tier == 'quick' else 500000

    def explicit_cases(self, ctx):
        for t in ['', 'x', 'x\n', '\n', '# c', '# c\n', 'if x:\n  y\n', 'if x:\n  y', 'if a:\n if b:\n  c\nd\n', '(\n)\n', 'x = [\n 1, # c\n 2\n]\n', 'x \\\n + 1\n',
                  '\x0cx\n', '﻿x = 1\n', 'a\r\nb\rc\n', "'''a\r\nb'''\n", 'def f():\n\tpass\n', 'x = 1;y = 2\n', '1_000 0x_ff 0o17 0b1 1e5 1.5j 00 0_0\n', 'é = "ß"\n',
                  'f"{x}" rb"a" Rb\'\' u""\n', 'a<<=b>>c**=d//=e->f:=g!=h<=i>=j...\n', 'if x:\n    y\n\n  # c\nz\n', 'if x:\n    y\n  \n\n    z\n', 'class C:\n    def f(self):\n        pass',
                  'x = (1,\n\n     2)\n', 'if x:\n    pass\n# c\nelse:\n    pass\n']:
            yield {'text': t, 'mode': 'exec'}

    def gen(self, cs, ctx):
        sub = ChoiceStream(cs.d[96:])
        k = cs.weighted([170, 30, 30, 26])
        if k == 0:
            g = PyGen(sub, budget=6 + cs.choice(40 if ctx.tier == 'quick' else 200), py312=cs.bool(30))
            items = g.program()
            lay = Layout(ChoiceStream(cs.d[::-1])) if cs.bool(200) else None
            text = render(items, lay).text
        elif k == 1:
            text = invalid.gen_token_mutant(cs, invalid.base_program(sub))
        elif k == 2:
            text = invalid.gen_char_mutant(cs, invalid.base_program(sub))
        else:
            text = invalid.gen_soup(cs)
        return {'text': text, 'mode': cs.pick(['exec', 'exec', 'exec', 'single', 'eval'])}

    def nontrivial(self, case, ctx):
        t = case['text']
        return len(invalid.tokens_of(t)) >= 10 and bool(re.search(r'''\n[ \t]+\S|['"]|\\\r?\n|#|[^\x00-\x7f]|\r''', t))

    def sample_repr(self, case):
        return {'text': case['text'][:300], 'mode': case['mode']}

    def check(self, case, ctx):
        text, mode = case['text'], case['mode']
        fails = []
        streams = {}
        for cfg, full in (('B', False), ('C', True)):
            r = ctx.sut(cfg).call('lex', src=text, mode=mode)
            if 'toks' not in r:
                fails.append(Failure('lex_panic_or_crash:' + cfg, text=text, reply=str(r)[:300]))
                continue
            if r['error'] is not None:
                ctx.count('lexical_error_(stopped_at_first)')
                continue
            streams[cfg] = r['toks']

            def bad(sig, **d):
                fails.append(Failure(sig + ('' if not full else ':full'), text=text, mode=mode, **d))
                return True
            check_stream(text, r['toks'], full, bad, ctx)
            ctx.count('streams_checked_' + cfg)
        if 'B' in streams and 'C' in streams:
            filtered = [t for t in streams['C'] if t[0]['k'] not in ('Comment', 'NonLogicalNewline')]
            if filtered != streams['B']:
                fails.append(Failure('full_lexer_minus_trivia_differs_from_default', text=text, mode=mode))
            self.trivia_complete(text, streams['B'], streams['C'], fails, mode)
        if 'B' in streams and not fails:
            self.vs_tokenize(text, streams['B'], fails, ctx, mode)
        return fails or None

    def trivia_complete(self, text, default, full, fails, mode):
        """layer 5: an independent scan of the default stream's gaps finds every comment and every non-logical newline;
        each must be a full-lexer token with exactly that range"""
        data = text.encode('utf-8')
        expected = []
        prev_end = 0
        for tok, a, b in default + [[{'k': 'END'}, len(data), len(data)]]:
            gap = data[prev_end:a]
            for m in re.finditer(rb'#[^\r\n]*|\\(?:\r\n|\r|\n)|\r\n|\r|\n', gap):
                s = m.group(0)
                if s.startswith(b'#'):
                    expected.append(('Comment', prev_end + m.start(), prev_end + m.end()))
                elif not s.startswith(b'\\'):
                    expected.append(('NonLogicalNewline', prev_end + m.start(), prev_end + m.end()))
            prev_end = b
        got = [(t[0]['k'], t[1], t[2]) for t in full if t[0]['k'] in ('Comment', 'NonLogicalNewline')]
        if got != expected:
            miss = [e for e in expected if e not in got][:3]
            extra = [g for g in got if g not in expected][:3]
            fails.append(Failure('full_lexer_trivia_tokens_incomplete_or_misplaced', text=text, mode=mode, missing=miss, unexpected=extra))

    def vs_tokenize(self, text, toks, fails, ctx, mode):
        if mode == 'eval' or re.search(r'\r(?!\n)', text) or '\x0c' in text or '\x00' in text:
            return
        try:
            ref = py_tokens(text)
        except (tokenize.TokenError, SyntaxError, IndentationError, UnicodeDecodeError, ValueError):
            ctx.count('tokenize_rejects')
            return
        # the pure-Python tokenizer recognises names with the regex \w+ (no combining marks, no emoji): compare only where that agrees
        if any(t['k'] == 'Name' and not (re.fullmatch(r'\w+', t['name']) and t['name'].isidentifier()) for t, a, b in toks):
            ctx.count('tokenize_skipped_name_outside_its_regex')
            return
        data = text.encode('utf-8')
        got = [(data[a:b].decode('utf-8'), a, b) for t, a, b in toks if t['k'] not in ('Newline', 'Indent', 'Dedent', 'EndOfFile', 'Comment', 'NonLogicalNewline')]
        ctx.count('compared_with_tokenize')
        if got != ref:
            for i, (g, r) in enumerate(zip(got, ref)):
                if g != r:
                    fails.append(Failure('differs_from_cpython_tokenize', text=text, index=i, got=g, reference=r))
                    return
            fails.append(Failure('differs_from_cpython_tokenize:length', text=text, got=len(got), reference=len(ref), tail=(got[len(ref):] or ref[len(got):])[:3]))

    def known(self, case, f, ctx):
        return None


PROP = C05()
