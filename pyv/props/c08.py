"""C08 — layout never changes the tree (DESIGN.md 6/C08)."""
import re
from ..engine import Failure
from ..known import open_ids
from ..choice import ChoiceStream
from ..gen.pygen import PyGen
from ..gen.layout import render, Layout, DIMS
from .. import ref
from .c01 import ProgramProperty, norm_path, trim


class C08(ProgramProperty):
    configs = ('A', 'C')
    id = 'C08'
    technique = 'metamorphic property testing: one generated CST rendered under two layouts (base vs random / single-dimension), trees compared with ranges erased'
    level_text = ('~100k (quick) / 600k (thorough) generated programs, each parsed in its base layout and in layout variants (LF/CRLF/CR, trailing blanks, blank and '
                  'comment lines, comments after code, indentation widths and tabs, form feeds, BOM, backslash joins, line breaks inside brackets, redundant '
                  'parentheses; composed and one dimension at a time): acceptance and the range-erased tree must not change')
    level_note = 'needs no reference implementation: the relation is between two runs of the parser; the layout renderer only rewrites what the property lists'
    rule = ('PyGen CST rendered twice; non-trivial = the variant differs from the base in >= 1 dimension and the program has a compound statement or a bracketed '
            'multi-line construct; distinct by case hash; dimension histogram in classes')

    def budget(self, tier):
        return 100000 if tier == "quick" else 600000

    def avoid(self):
        return {'C01-F2', 'C01-F3'}

    def open(self):
        return open_ids('C01') | open_ids('C08')

    def gen(self, cs, ctx):
        budget = 8 + cs.choice(self.node_budget[ctx.tier])
        counters = {}
        g = PyGen(cs, budget=budget, py312=cs.bool(40), avoid=self.avoid() & self.open(), counters=counters)
        mode = cs.pick(['exec', 'exec', 'exec', 'single', 'eval'])
        items = [('line', g.expr('test'))] if mode == 'eval' else g.program()
        for k, v in counters.items():
            ctx.count(k, v)
        base = render(items).text
        lcs = ChoiceStream(cs.d[::-1])
        if cs.bool(100):
            dim = cs.pick(DIMS)
            lay = Layout(lcs, dims=[dim])
            ctx.count('single_dimension_' + dim)
        else:
            lay = Layout(lcs)
        r = render(items, lay)
        if mode == 'eval':
            base = base.strip('\n')
        for f in r.feats:
            ctx.count('layout_' + f)
        # the variant is parsed through the start-offset entry point half of the time: layout handling (BOM, line joins,
        # indentation) must not depend on where the text is said to start
        return {'base': base, 'variant': r.text, 'mode': mode, 'feats': sorted(r.feats), 'k': cs.pick([0, 0, 0, 1, 7, 400, 1 << 31]),
                'py312': bool(g.py312 and ('type_params' in g.features or 'type_alias' in g.features))}

    def nontrivial(self, case, ctx):
        return case['base'] != case['variant'] and bool(re.search(r':\s*\n|[\[({]', case['base']))

    def sample_repr(self, case):
        return {'base': case['base'][:200], 'variant': case['variant'][:300], 'mode': case['mode']}

    def check(self, case, ctx):
        # layout must not matter in any feature configuration: a third of the pairs also go through the full-lexer build,
        # where comments and line breaks inside brackets are tokens (and pass through the soft-keyword look-ahead)
        import zlib
        f = self.check_cfg(case, ctx, 'A')
        if f is None and zlib.crc32(case['variant'].encode('utf-8')) % 3 == 0:
            ctx.count('also_in_full_lexer_build')
            f = self.check_cfg(case, ctx, 'C')
            if f is not None:
                f.signature += ':C'
        return f

    def check_cfg(self, case, ctx, cfg):
        sut = ctx.sut(cfg)
        a = sut.call('parse', src=case['base'], mode=case['mode'])
        b = sut.call('parse', src=case['variant'], mode=case['mode'], k=case.get('k', 0))
        for name, r in (('base', a), ('variant', b)):
            if 'ok' not in r and 'err' not in r:
                return Failure('panic_or_crash', which=name, case=_c(case), reply=str(r)[:300])
        if ('ok' in a) != ('ok' in b):
            return Failure('acceptance_differs', case=_c(case), base='ok' if 'ok' in a else a['err'], variant='ok' if 'ok' in b else b['err'],
                           variant_offset=b.get('offset'), base_offset=a.get('offset'))
        if 'ok' not in a:
            ctx.count('both_rejected')
            return None
        ctx.count('both_accepted')
        d = ref.first_diff(ref.erase(a['ok']), ref.erase(b['ok']))
        if d and not case.get('py312'):
            # validity gate of the metamorphic pair: if the reference parser reads the two texts differently as well, the
            # rewrite was not a pure layout change (a generator slip such as `with (a, b):` vs `with ((a, b)):`)
            ra, rb = ref.ref_parse(case['base'], case['mode']), ref.ref_parse(case['variant'], case['mode'])
            if ra[0] == 'ok' and rb[0] == 'ok' and ref.first_diff(ref.erase(ra[1]), ref.erase(rb[1])) is not None:
                ctx.count('pair_not_equivalent_for_the_reference_(generator)')
                return None
        if d:
            return Failure('tree_differs:' + norm_path(d[0]), case=_c(case), path=d[0], base=trim(d[1]), variant=trim(d[2]))
        return None

    def known(self, case, f, ctx):
        if 'C08-F1' in open_ids('C08') and f.signature in ('acceptance_differs', 'acceptance_differs:C'):
            # the region of C01-F2, decided on the reference tree of the rejected text: a statement that is *not* a match
            # statement starts with the word match / case and a ':' outside brackets follows on its line
            from .c01 import C01
            rejected = case['base'] if f.detail.get('base') != 'ok' else case['variant']
            if C01.soft_kw_name_line_with_colon(self, {'text': rejected, 'mode': case['mode'], 'py312': case.get('py312', False)}, ctx):
                return 'C08-F1'
        return None


def _c(case):
    return {'base': case['base'], 'variant': case['variant'], 'mode': case['mode'], 'k': case.get('k', 0)}


PROP = C08()
