"""C15 — position primitives: line index, universal newline iteration, range algebra (DESIGN.md 6/C15)."""
import itertools, bisect
from collections import deque
from ..engine import Property, Failure
from .. import valuegen as vg

ALPHA = ['\n', '\r', '\ufeff', 'a', 'é', '\U0001f600']
M32 = (1 << 32) - 1
ENDPOINTS = [0, 1, 2, 3, 4, 5, 6, M32 - 2, M32 - 1, M32]


# ------------------------------------------------------------------ naive models
def model_lines(text):
    """[(byte_start, full_text)] by a character loop; CR, LF and CRLF each one break"""
    out = []
    cur = ''
    start = 0
    pos = 0
    i = 0
    n = len(text)
    while i < n:
        ch = text[i]
        cur += ch
        pos += len(ch.encode('utf-8'))
        if ch == '\r' and i + 1 < n and text[i + 1] == '\n':
            cur += '\n'
            pos += 1
            i += 1
            out.append((start, cur))
            cur, start = '', pos
        elif ch in '\r\n':
            out.append((start, cur))
            cur, start = '', pos
        i += 1
    out.append((start, cur))  # last (possibly empty) line
    return out


def strip_eol(s):
    if s.endswith('\r\n'):
        return s[:-2]
    if s.endswith('\n') or s.endswith('\r'):
        return s[:-1]
    return s


def char_boundaries(text):
    offs = [0]
    p = 0
    for ch in text:
        p += len(ch.encode('utf-8'))
        offs.append(p)
    return offs


def query_offsets(text):
    """every char boundary for texts up to 300 symbols; for longer ones every boundary near a line break
    plus an evenly spaced sample (the per-offset work of the code under test is linear in the line length)"""
    offs = char_boundaries(text)
    if len(offs) <= 300:
        return offs
    keep = set(offs[::max(len(offs) // 150, 1)]) | {offs[-1]}
    for i, ch in enumerate(text):
        if ch in '\r\n\ufeff':
            keep.update(offs[max(i - 1, 0):i + 3])
    return sorted(keep)


def check_text(text, r):
    data = text.encode('utf-8')
    lines = model_lines(text)
    starts = [s for s, _ in lines]
    nbreaks = len(lines) - 1
    if r['count'] != nbreaks + 1:
        return Failure('line_count', text=text, got=r['count'], expected=nbreaks + 1)
    if r['starts'] != starts:
        return Failure('line_starts', text=text, got=r['starts'], expected=starts)
    offs = query_offsets(text)
    bom = text.startswith('\ufeff')
    for off, loc in zip(offs, r['locs']):
        if loc == 'panic':
            return Failure('location_panic', text=text, offset=off)
        # the line whose span contains the offset = last line starting at or before it
        row = bisect.bisect_right(starts, off)
        ls = starts[row - 1]
        col = len(data[ls:off].decode('utf-8'))
        if bom and row == 1 and off >= 3:
            col -= 1
        exp = {'line': row, 'line2': row, 'row': row, 'row2': row, 'col': col + 1, 'col2': col + 1, 'up_to': off, 'after': len(data) - off}
        if loc != exp:
            return Failure('source_location', text=text, offset=off, got=loc, expected=exp)
    # line queries partition the text
    got_lines = r['lines']
    if len(got_lines) != len(lines) + 1:
        return Failure('lines_len', text=text)
    acc = ''
    for n, ((s, full), g) in enumerate(zip(lines, got_lines), 1):
        if g == 'panic':
            return Failure('line_query_panic', text=text, line=n)
        e = s + len(full.encode('utf-8'))
        exp = {'start': s, 'end': e, 'range': [s, e], 'text': full}
        if g != exp:
            return Failure('line_query', text=text, line=n, got=g, expected=exp)
        acc += g['text']
    if acc != text:
        return Failure('lines_do_not_partition', text=text)
    last = got_lines[-1]
    L = len(data)
    if last != {'start': L, 'end': L, 'range': [L, L], 'text': ''}:
        return Failure('line_after_last', text=text, got=last)
    return None


def model_iter_lines(text, base):
    ls = model_lines(text)
    if ls and ls[-1][1] == '':
        ls = ls[:-1]
    return [(base + s, full) for s, full in ls]


def line_obj(start, full):
    t = strip_eol(full)
    fl = len(full.encode('utf-8'))
    tl = len(t.encode('utf-8'))
    return {'full': full, 'text': t, 'start': start, 'end': start + tl, 'full_end': start + fl, 'range': [start, start + tl],
            'full_range': [start, start + fl], 'full_len': fl, 'deref': t}


def check_iter(case, r):
    text, base, ops = case['text'], case.get('offset', 0), case['ops']
    if case.get('use_from') or case.get('use_ext'):
        base = 0
    lines = model_iter_lines(text, base)
    exp = []
    if case.get('trailing'):
        q = deque(lines)
        trailing = [(base + len(text.encode('utf-8')), '')] if text.endswith(('\r', '\n')) else []
        for _ in ops:
            if q:
                exp.append(line_obj(*q.popleft()))
            elif trailing:
                exp.append(line_obj(*trailing.pop()))
            else:
                exp.append(None)
    else:
        q = deque(lines)
        for c in ops:
            if c == 'f':
                exp.append(line_obj(*q.popleft()) if q else None)
            elif c == 'b':
                exp.append(line_obj(*q.pop()) if q else None)
            else:
                exp.append(line_obj(*q.pop()) if q else None)
                break
    if r['items'] != exp:
        for i, (g, e) in enumerate(zip(r['items'], exp)):
            if g != e:
                return Failure('newline_iter', text=text, ops=ops, step=i, got=g, expected=e)
        return Failure('newline_iter_len', text=text, ops=ops, got=len(r['items']), expected=len(exp))
    # find_newline
    fn = None
    for i, ch in enumerate(text):
        if ch in '\r\n':
            p = len(text[:i].encode('utf-8'))
            if ch == '\n':
                fn = [p, '\n', 1, 1, '\n']
            elif text[i + 1:i + 2] == '\n':
                fn = [p, '\r\n', 2, 2, '\r\n']
            else:
                fn = [p, '\r', 1, 1, '\r']
            break
    if r['find_newline'] != fn:
        return Failure('find_newline', text=text, got=r['find_newline'], expected=fn)
    return None


def check_range(case, r):
    (a0, a1), (b0, b1), off, text = case['a'], case['b'], case['off'], case.get('text', '')

    def P(cond, val):
        return val if cond else 'panic'

    exp = {}
    exp['new_a'] = P(a0 <= a1, [a0, a1])
    exp['at'] = P(a0 + a1 <= M32, [a0, a0 + a1])
    exp['empty'] = [a0, a0]
    exp['up_to'] = [0, a0]
    if a0 <= a1 and b0 <= b1:
        A = range(a0, a1)
        exp['len'] = a1 - a0
        exp['is_empty'] = a0 == a1
        exp['contains'] = off in A
        exp['contains_inclusive'] = a0 <= off <= a1
        if b0 < b1:
            # non-empty other range: containment of its set of offsets (range() objects: no materialisation)
            exp['contains_range'] = (b0 in A or a0 == b0 == a1) and (b1 - 1 in A) if a0 < a1 else False
            exp['contains_range'] = a0 <= b0 and b1 <= a1
        else:
            exp['contains_range'] = a0 <= b0 <= a1
        s, e = max(a0, b0), min(a1, b1)
        exp['intersect'] = [s, e] if s <= e else None
        exp['cover'] = [min(a0, b0), max(a1, b1)]
        exp['cover_offset'] = [min(a0, off), max(a1, off)]
        exp['checked_add'] = [a0 + off, a1 + off] if a1 + off <= M32 else None
        exp['checked_sub'] = [a0 - off, a1 - off] if a0 - off >= 0 else None
        exp['add'] = exp['add_assign'] = P(a1 + off <= M32, [a0 + off, a1 + off])
        exp['sub'] = exp['sub_assign'] = P(a0 - off >= 0, [a0 - off, a1 - off])
        exp['add_ref'] = [exp['add']] * 3
        exp['sub_ref'] = [exp['sub']] * 3
        if a0 < a1 and b0 < b1:
            # both non-empty: read as sets of offsets
            if a1 - 1 < b0:
                exp['ordering'] = 'Less'
            elif b1 - 1 < a0:
                exp['ordering'] = 'Greater'
            else:
                exp['ordering'] = 'Equal'
        else:
            # documented examples define the empty-range cases
            exp['ordering'] = 'Less' if a1 <= b0 else ('Greater' if b1 <= a0 else 'Equal')
        exp['sub_start'] = P(a0 - off >= 0, [a0 - off, a1])
        exp['add_start'] = P(a0 + off <= a1, [a0 + off, a1])
        exp['sub_end'] = P(a1 - off >= a0, [a0, a1 - off])
        exp['add_end'] = P(a1 + off <= M32, [a0, a1 + off])
        exp['eq'] = (a0, a1) == (b0, b1)
        data = text.encode('utf-8')
        bounds = set(char_boundaries(text))
        ok = a1 <= len(data) and a0 in bounds and a1 in bounds
        exp['slice'] = exp['slice_string'] = P(ok, data[a0:a1].decode('utf-8') if ok else None)
        exp['slice_mut'] = [exp['slice']] * 2
        exp['into_range'] = [a0, a1]
        exp['from_range'] = [a0, a1]
        # the same set of offsets through std's RangeBounds (generic code, BTreeMap::range): start included, end excluded
        exp['start_bound'] = ['included', a0]
        exp['end_bound'] = ['excluded', a1]
        exp['range_bounds_contains'] = off in A
        exp['btree_range'] = sorted({v for v in (a0, a1, b0, b1, off) if v in A})
    exp['ts_checked_add'] = a0 + b0 if a0 + b0 <= M32 else None
    exp['ts_checked_sub'] = a0 - b0 if a0 >= b0 else None
    exp['ts_add'] = P(a0 + b0 <= M32, a0 + b0)
    exp['ts_sub'] = P(a0 >= b0, a0 - b0)
    exp['ts_add_ref'] = [exp['ts_add']] * 3
    exp['ts_sub_ref'] = [exp['ts_sub']] * 3
    exp['ts_add_assign'], exp['ts_sub_assign'] = exp['ts_add'], exp['ts_sub']
    exp['ts_cmp'] = 'Less' if a0 < b0 else ('Greater' if a0 > b0 else 'Equal')
    exp['ts_to_u32'] = exp['ts_to_usize'] = exp['ts_new'] = a0
    exp['ts_sum'] = P(a0 + b0 + off <= M32, a0 + b0 + off)
    exp['text_len'] = exp['ts_of'] = len(text.encode('utf-8'))
    exp['char_lens'] = [len(c.encode('utf-8')) for c in text]
    exp['try_from_usize'] = a0 + b0 if a0 + b0 <= M32 else None
    for k in exp:
        if r.get(k) != exp[k]:
            return Failure('range_' + k, case=case, got=r.get(k), expected=exp[k])
    extra = set(r) - set(exp)
    if extra:
        return Failure('range_unexpected_keys', keys=sorted(extra))
    return None


ITER_PATTERNS = ['f', 'b', 'fb', 'bf', 'ffb', 'bbf']


class C15(Property):
    fuzz_target = 'fuzz_lines'
    id = 'C15'
    configs = ('A',)
    bytes_per_case = 256
    technique = 'model-based property testing: exhaustive small-scope enumeration + Hypothesis random texts/histories/range pairs against naive models'
    level_text = ('every text of <= 5 (quick) / <= 7 (thorough) symbols over {LF,CR,BOM,a,e-acute,emoji} at every char-boundary offset, '
                  'fixed iterator op patterns on each, all range pairs with endpoints in {0..6} u {2^32-3..2^32-1}; beyond that random longer '
                  'texts, random next/next_back histories and random ranges; compared with naive character-loop / deque / integer models')
    level_note = 'trusts the naive Python models (character loop for lines, deque for double-ended iteration, unbounded integers for ranges); doc examples define empty-range ordering'
    rule = ('texts over {LF,CR,BOM,ascii,2-byte,4-byte} exhaustively up to the tier length then random (also arbitrary Unicode) up to 2000 symbols, '
            'every char-boundary offset queried; iterator histories over {next,next_back,last} incl. past exhaustion and with base offsets; range '
            'pairs/offsets from small and near-2^32 endpoints. non-trivial = text with >= 2 line breaks of >= 2 kinds, history mixing both ends, or '
            'range pair that overlaps/touches/nests; distinct by case hash')

    def budget(self, tier):
        return 100000 if tier == 'quick' else 1500000

    def explicit_cases(self, ctx):
        maxlen = 5 if ctx.tier == 'quick' else 7
        for n in range(0, maxlen + 1):
            for t in itertools.product(ALPHA, repeat=n):
                text = ''.join(t)
                yield {'k': 'text', 'text': text, 'iters': True}
        # characters that other line-splitting conventions (str.splitlines) treat as line ends but Python source does not
        for n in range(1, 5):
            for t in itertools.product(['\n', '\r', '\x0b', '\x0c', '\x1c', '\x85', '\u2028', 'a'], repeat=n):
                if any(c in t for c in ('\x0b', '\x0c', '\x1c', '\x85', '\u2028')):
                    yield {'k': 'text', 'text': ''.join(t), 'iters': True}
        for a0 in ENDPOINTS:
            for a1 in ENDPOINTS:
                if a0 > a1:
                    yield {'k': 'range', 'a': [a0, a1], 'b': [0, 0], 'off': 0, 'text': ''}
                    continue
                for b0 in ENDPOINTS:
                    for b1 in ENDPOINTS:
                        if b0 > b1:
                            continue
                        yield {'k': 'rangeset', 'a': [a0, a1], 'b': [b0, b1], 'offs': ENDPOINTS, 'text': 'aé\U0001f600'}

    def gen(self, cs, ctx):
        k = cs.weighted([90, 90, 76])
        if k == 0:
            return {'k': 'text', 'text': self.gen_text(cs), 'iters': False}
        if k == 1:
            text = self.gen_text(cs, 40)
            nl = len(model_iter_lines(text, 0))
            n = cs.choice(nl + 4)
            ops = ''.join('fb'[cs.choice(2)] for _ in range(n))
            if cs.bool(24):
                ops += 'l'
            trailing = cs.bool(40)
            if trailing:
                ops = 'f' * len(ops)
            c = {'k': 'iter', 'text': text, 'offset': cs.pick([0, 0, 1, 7, 1000, M32 - len(text.encode('utf-8'))]), 'ops': ops, 'trailing': trailing}
            v = cs.choice(8)
            if v == 0:
                c['use_from'] = True
            elif v == 1 and not trailing:
                c['use_ext'] = True
            return c

        def ep():
            return cs.pick(ENDPOINTS) if cs.bool(150) else (cs.choice(40) if cs.bool(200) else cs.choice(M32 + 1))
        a = sorted([ep(), ep()])
        if cs.bool(16):
            a = a[::-1]
        b = sorted([ep(), ep()])
        text = vg.gen_text(cs, 12, ['abc', 'éß', '\U0001f600', '\n\r', '中'])
        return {'k': 'range', 'a': a, 'b': b, 'off': ep(), 'text': text}

    def gen_text(self, cs, maxlen=None):
        m = cs.choice(4)
        n = cs.choice(maxlen or (2000 if m == 3 else 60)) + (6 if m != 3 else 0)
        out = []
        for _ in range(n):
            if cs.bool(176):
                out.append(cs.pick(ALPHA))
            else:
                out.append(cs.pick(['\r\n', 'abc', '\x0b', '\x0c', ' ', '\u0085', ' ', ' ', '\t', '中', '\ufeff', '\x00', 'z' * 20]))
        return ''.join(out)

    def nontrivial(self, case, ctx):
        if case['k'] == 'text' or case['k'] == 'iter':
            t = case['text']
            kinds = ('\r\n' in t) + (t.replace('\r\n', '').count('\n') > 0) + (t.replace('\r\n', '').count('\r') > 0)
            breaks = len(model_lines(t)) - 1
            if case['k'] == 'iter':
                return breaks >= 2 and 'f' in case['ops'] and ('b' in case['ops'] or 'l' in case['ops'])
            return breaks >= 2 and kinds >= 2
        (a0, a1), (b0, b1) = case['a'], case['b']
        return a0 <= a1 and max(a0, b0) <= min(a1, b1)

    def check(self, case, ctx):
        sut = ctx.sut('A')
        k = case['k']
        if k == 'text':
            text = case['text']
            r = sut.call('line_index', text=text, offsets=query_offsets(text))
            if 'locs' not in r:
                return Failure('line_index_crash', text=text, reply=r)
            f = check_text(text, r)
            if f or not case.get('iters'):
                return f
            nl = len(model_iter_lines(text, 0))
            for pat in ITER_PATTERNS:
                ops = (pat * (nl + 3))[:nl + 2]
                for trailing in (False, True):
                    if trailing and pat != 'f':
                        continue
                    c = {'k': 'iter', 'text': text, 'offset': 5, 'ops': ops, 'trailing': trailing}
                    f = self.check(c, ctx)
                    if f:
                        return f
            return None
        if k == 'iter':
            r = sut.call('newline_iter', **{kk: v for kk, v in case.items() if kk != 'k'})
            if 'items' not in r:
                return Failure('newline_iter_crash', case=case, reply=r)
            ctx.count('iter_histories')
            return check_iter(case, r)
        if k == 'rangeset':
            for off in case['offs']:
                f = self.check({'k': 'range', 'a': case['a'], 'b': case['b'], 'off': off, 'text': case['text']}, ctx)
                if f:
                    return f
            return None
        r = sut.call('range_ops', a=case['a'], b=case['b'], off=case['off'], text=case.get('text', ''))
        if 'new_a' not in r:
            return Failure('range_ops_crash', case=case, reply=r)
        ctx.count('range_evals')
        return check_range(case, r)


PROP = C15()
