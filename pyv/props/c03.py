"""C03 — lexing and parsing are total: never panic, hang or misplace an error (DESIGN.md 6/C03)."""
import re
from ..engine import Property, Failure
from ..known import open_ids
from ..gen import invalid
from ..choice import ChoiceStream

M32 = (1 << 32) - 1
MODES = ('exec', 'single', 'eval')
# work-counter bounds (hooks): fixed constants, >= 8x the largest ratio observed on the unchanged tree over
# the whole generated corpus (measured: max ticks/(chars+16) = 2.9, max reductions/(chars+16) = 13.2)
C1_TICKS_PER_CHAR = 24
C2_REDUCTIONS_PER_CHAR = 110


def char_boundaries(text):
    offs = [0]
    p = 0
    for ch in text:
        p += len(ch.encode('utf-8'))
        offs.append(p)
    return offs


def gen_string_error(cs):
    """a string / bytes / f-string literal whose *inside* is wrong somewhere - after well-formed pieces (escapes, replacement
    fields with comparison operators, nested specs, non-ASCII text): the error offset is computed by the literal's own parser,
    character by character, and must still land inside the input on a character boundary"""
    pfx = cs.pick(['f', 'F', 'rf', 'fr', '', 'b', 'u', 'rb', 'f', 'f'])
    q = cs.pick(["'", '"', "'''", '"""'])
    isf, isb = 'f' in pfx.lower(), 'b' in pfx.lower()
    na = (lambda: '') if isb else (lambda: cs.pick(['', '', 'é', '中', '\U0001f600', 'ß ']))
    good = []
    for _ in range(cs.choice(5)):
        j = cs.choice(8)
        if j == 0:
            good.append(cs.pick(['abc', ' ', '%s', 'x y']) + na())
        elif j == 1:
            good.append(cs.pick(['\\n', '\\x41', '\\101', '\\\\', '\\u00e9' if not isb else '\\t', '\\N{DIGIT ONE}' if not isb else '\\0']))
        elif isf and j == 2:
            good.append('{' + cs.pick(['a==b', 'a != b', 'n <= 10', 'x>=y', 'a == b == c', 'é==é', 'a is not b']) + cs.pick(['', '!r', ':>5', '=']) + '}' + na())
        elif isf and j == 3:
            good.append('{' + cs.pick(['x', 'é', 'd["k"]', 'f(a, b)', '(a, b)', 'x:{w}', 'x!r:>{w}.{p}', 'x=', 'lambda_', 'a if b else c']) + '}' + na())
        elif isf and j == 4:
            good.append(cs.pick(['{{', '}}', '{{}}']) + na())
        elif q in ("'''", '"""') and j == 5:
            good.append(cs.pick(['\n', '\r\n', '\r']) + na())
        else:
            good.append(na() + cs.pick(['a', '0', '_']))
    bad_f = ['{x!' + cs.pick(['é', 'z', '', 'rr', '中']) + '}', '{', '}', '{x', '{x!r', '{x:{y:{z}}}', '{}', '{ }', '{x!r:{', '{é é}', '{a b}', '{x:}}', '{(x}', '{x]}', '{"}', '{\\}', '{#}', '{x=!}', '{!r}']
    bad_s = ['\\N{é', '\\N{', '\\N{NOT A NAME}', '\\x' + cs.pick(['', 'g', '4', 'é']), '\\u12' + cs.pick(['', 'é', 'g']), '\\U0011' + cs.pick(['0000', '', 'é']), '\\N']
    bad_b = ['é', '中', '\\x' + cs.pick(['', 'g', '4'])]
    bad = cs.pick(bad_b if isb else (bad_f + bad_s if isf else bad_s))
    tail = cs.pick(['', 'z', 'é' if not isb else 'y', '{y}' if isf else 'y'])
    lit = pfx + q + ''.join(good) + bad + tail + q
    if cs.bool(80):
        # implicit concatenation: well-formed literals (with non-ASCII text) in front of the one with the error
        front = []
        for _ in range(1 + cs.choice(2)):
            fq = cs.pick(["'", '"'])
            front.append(('b' if isb else cs.pick(['', 'u', 'r', 'f'])) + fq + (cs.pick(['a', 'xy', '']) if isb else cs.pick(['éé', '日本', 'a', '\U0001f600', 'ß ', ''])) + fq)
        lit = cs.pick([' ', '  ', '\\\n', ' \\\r\n  ']).join(front + [lit]) if not cs.bool(40) else '(' + cs.pick([' ', '\n     ', '\r\n  ']).join(front + [lit]) + ')'
    return cs.pick(['%s', 'x = %s', 'print(%s)', 'é = %s\n', '# é\n%s', 'f(%s, 1)', 'x = [%s,\n 2]']) % lit + cs.pick(['', '\n', '\r\n'])


class C03(Property):
    fuzz_target = 'fuzz_parse'

    def fuzz_seeds(self):
        # raw-mode inputs (first byte has bit 7 set): mode selector, offset selector, then the text
        from ..gen.invalid import FAMILIES
        texts = ['x = 1\n', 'def f(a, *b, c=1, **d):\n    return a\n', 'match x:\n    case [1, *r] if r: pass\n', 'class C(B, k=1):\n  @d\n  async def f(self): await x\n',
                 "f'{x!r:>{w}}' 'a' b'c'\n", 'try:\n  pass\nexcept* E as e:\n  raise\nfinally:\n  pass\n', 'with (a as b, c): pass\n', 'type X[T] = list[T]\n', 'x = [i for i in y if i]\n',
                 'lambda *a, k=1: (yield)\n', 'if x:\n\ty\nelse:\n\tz\n', '\ufeffx = "\\N{DIGIT ONE}"\r\n']
        texts += [FAMILIES[n](12) for n in sorted(FAMILIES)]
        out = []
        for i, t in enumerate(texts):
            out.append(bytes([0x80 | (i % 3), i % 6]) + t.encode('utf-8'))
        return out
    id = 'C03'
    configs = ('A', 'C', 'D')
    bytes_per_case = 512
    technique = ('property-based robustness testing (Hypothesis): valid programs, every prefix, token/char mutants, token soups, random Unicode, '
                 'size-doubling pathological families x modes x start offsets; oracle = no panic / fuel-bounded loops (hooks) / error offset invariants')
    level_text = ('~200k inputs per quick run (every char-boundary prefix of generated programs, mutants, soups, Unicode) in three modes with start offsets up to '
                  '2^32-1-len, through lex, parse_starts_at and parse_tokens, built with overflow checks and debug assertions; loop fuel and LR reduction '
                  'counters bound the work deterministically; 60 pathological families checked for at most linear growth; the thorough tier adds a libFuzzer campaign')
    level_note = ('"never hangs" is decided for the instrumented lexer / soft-keyword loops (tick fuel) and the LR driver (reduction count); any other hang would '
                  'surface as the adapter watchdog = inconclusive; inputs are <= 256 KiB, the 2^32 edge is reached through start offsets')
    rule = ('six input classes (valid, prefixes, token mutants, char mutants, soups, Unicode) + families; non-trivial = input with >= 3 tokens that is not a '
            'valid program, or valid with start offset != 0; distinct by case hash; outcome histogram in classes')

    def budget(self, tier):
        return 60000 if tier == 'quick' else 600000

    def explicit_cases(self, ctx):
        sizes = (60, 120) if ctx.tier == 'quick' else (60, 500, 4000, 16000)
        for name in sorted(invalid.FAMILIES):
            for n in sizes:
                if name in invalid.NESTING_FAMILIES:
                    n = min(n, 50)  # depth n, 2n, 4n <= 200: "realistic nesting"
                for mode in ('exec', 'eval'):
                    yield {'k': 'family', 'name': name, 'n': n, 'mode': mode}
        for text in ['', ' ', '\n', '#', '# c\n', '\\', '\\\n', '﻿', '\t', '\x0c', '\r', '(', ')', "'", '"""', 'f"{', '0x', '1_', '$', '\x00', 'é', 'match', 'type',
                     'if', 'x =', 'x:', 'def', 'lambda', ' x', '  x\n y', 'x\n  y', "f'{x!}'", "f'{x:{y:{z}}}'", "b'é'", "'\\N{}'", "'\\x'", '1e', '0b', '.', '...', '@',
                     'x;', ';', ',', 'x,', '*', '**x', '(*x)', 'print >>f', 'x = = 1', 'a b', '1 2', '1.2.3', '0777', '1__1', "''' ", 'class', 'with', 'a=1;;']:
            for mode in MODES:
                for off in (0, 7, M32 - len(text.encode('utf-8'))):
                    yield {'k': 'text', 'text': text, 'mode': mode, 'off': off}

    def gen(self, cs, ctx):
        k = cs.weighted([40, 30, 50, 40, 60, 36, 30])
        sub = ChoiceStream(cs.d[64:])
        if k in (0, 1, 2, 3):
            base = invalid.base_program(sub)
        mode = cs.pick(MODES)
        if k == 0:
            text, kind = base, 'valid'
        elif k == 1:
            return {'k': 'prefixes', 'text': base, 'mode': mode, 'off': cs.pick([0, 0, 5])}
        elif k == 2:
            text, kind = invalid.gen_token_mutant(cs, base), 'token_mutant'
        elif k == 3:
            text, kind = invalid.gen_char_mutant(cs, base), 'char_mutant'
        elif k == 4:
            text, kind = invalid.gen_soup(cs), 'soup'
        elif k == 6:
            text, kind = gen_string_error(cs), 'string_literal_with_an_error_inside'
        else:
            text, kind = invalid.gen_unicode(cs), 'unicode'
        n = len(text.encode('utf-8'))
        off = cs.pick([0, 0, 1, 7, 400, 1 << 16, 1 << 31, M32 - n])
        ctx.count('class_' + kind)
        return {'k': 'text', 'text': text, 'mode': mode, 'off': off}

    def nontrivial(self, case, ctx):
        if case['k'] != 'text':
            return True
        return len(invalid.tokens_of(case['text'])) >= 3

    def sample_repr(self, case):
        c = dict(case)
        if 'text' in c:
            c['text'] = c['text'][:200]
        return c

    # ---------------------------------------------------------------- the oracle for one input
    def check_one(self, text, mode, off, ctx, fails, cfg='A'):
        sut = ctx.sut(cfg)
        data = text.encode('utf-8')
        n = len(data)
        nchars = len(text)
        if off + n > M32:
            off = M32 - n
        fuel = C1_TICKS_PER_CHAR * (n + 16)
        tok_limit = 2 * nchars + 4
        reqs = [{'op': 'lex', 'src': text, 'mode': mode, 'k': off, 'limit': tok_limit + 2, 'fuel': fuel},
                {'op': 'parse', 'src': text, 'mode': mode, 'k': off, 'fuel': fuel, 'brief': True},
                {'op': 'parse_tokens', 'src': text, 'mode': mode, 'k': off, 'fuel': fuel, 'brief': True}]
        rs = sut.batch(reqs)
        bset = None

        def bad(sig, **d):
            fails.append(Failure(sig + ('' if cfg == 'A' else ':' + cfg), text=text, mode=mode, off=off, **d))

        def check_offset(name, o):
            nonlocal bset
            if not (off <= o <= off + n):
                bad('error_offset_outside_input:' + name, offset=o, lo=off, hi=off + n)
                return
            if bset is None:
                bset = set(char_boundaries(text))
            if (o - off) not in bset:
                bad('error_offset_inside_character:' + name, offset=o)
        lexr = rs[0]
        ntoks = None
        if 'toks' not in lexr:
            bad('lex_panic' if 'panic' in lexr else 'lex_crash', reply=_short(lexr))
        else:
            ntoks = lexr['n']
            if lexr['truncated'] or lexr['n'] > tok_limit:
                bad('token_stream_not_bounded', n=lexr['n'], limit=tok_limit)
            if lexr['error'] is not None:
                check_offset('lex', lexr['error']['offset'])
                ctx.count('lex_err_' + lexr['error']['err']['e'])
            for t in lexr['toks'][-3:]:
                if not (off <= t[1] <= t[2] <= off + n):
                    bad('token_range_outside_input', tok=t)
            if lexr.get('ticks', 0) > fuel:
                bad('lexer_fuel_exceeded', ticks=lexr['ticks'], fuel=fuel)
        for name, r in (('parse', rs[1]), ('parse_tokens', rs[2])):
            if 'ok' in r:
                ctx.count(name + '_ok')
            elif 'err' in r:
                check_offset(name, r['offset'])
                e = r['err']
                ctx.count('%s_err_%s' % (name, e['t'] + ('.' + e['e'] if 'e' in e else '')))
            else:
                bad(name + ('_panic' if 'panic' in r else '_crash'), reply=_short(r))
                continue
            if r.get('reductions', 0) > C2_REDUCTIONS_PER_CHAR * (n + 16):
                bad('reductions_not_linear_in_size', reductions=r['reductions'], size=n)
            ctx.counters['max_ticks_per_char_x100'] = max(ctx.counters.get('max_ticks_per_char_x100', 0), r.get('ticks', 0) * 100 // (n + 16))
            ctx.counters['max_reductions_per_char_x100'] = max(ctx.counters.get('max_reductions_per_char_x100', 0), r.get('reductions', 0) * 100 // (n + 16))
        # the two parse entry points are views of one parser (C09 decides this in depth; cheap sanity here)
        return rs

    def check(self, case, ctx):
        fails = []
        k = case['k']
        # totality holds in every feature configuration: half of the inputs also go through the full-lexer build (comment and
        # non-logical-newline tokens: other code paths in the lexer and the token filter) or the num-bigint build
        import zlib
        other = {0: 'C', 1: 'C', 2: 'D'}.get(zlib.crc32(case.get('text', case.get('name', '')).encode('utf-8')) % 4) if k in ('text', 'prefixes') else None
        if other:
            ctx.count('also_in_build_' + other)
        if k == 'text':
            self.check_one(case['text'], case['mode'], case['off'], ctx, fails)
            if other and not fails:
                self.check_one(case['text'], case['mode'], case['off'], ctx, fails, cfg=other)
        elif k == 'prefixes':
            text = case['text']
            cut = 0
            for i in range(len(text) + 1):
                self.check_one(text[:i], case['mode'], case['off'], ctx, fails)
                if other and not fails:
                    self.check_one(text[:i], case['mode'], case['off'], ctx, fails, cfg=other)
                cut += 1
                if fails:
                    break
            ctx.count('prefix_inputs', cut)
        else:
            fam = invalid.FAMILIES[case['name']]
            prev = None
            for mult in (1, 2, 4):
                n = case['n'] * mult
                text = fam(n)
                rs = self.check_one(text, case['mode'], 0, ctx, fails)
                if fails:
                    break
                work = max(rs[1].get('ticks', 0), 1) + rs[1].get('reductions', 0)
                size = len(text.encode('utf-8'))
                if prev is not None and size >= prev[1] and work > 8 * prev[0] * max(size / max(prev[1], 1), 1) / 2 + 2000:
                    fails.append(Failure('work_grows_faster_than_linear', family=case['name'], n=n, work=work, prev_work=prev[0], size=size, prev_size=prev[1]))
                    break
                prev = (work, size)
        return fails or None

    def known(self, case, f, ctx):
        ids = open_ids('C03')
        d = f.detail
        if 'C03-F1' in ids and f.signature.startswith('error_offset_outside_input') and d.get('offset') == 0 and d.get('off', 0) > 0:
            # error raised before any real token was consumed: the text holds no token at all
            if not [t for t in invalid.tokens_of(d.get('text', '').lstrip('﻿')) if t.strip() and not t.startswith('#')] or _only_comments(d.get('text', '')):
                return 'C03-F1'
        if 'C03-F2' in ids and f.signature.startswith(('error_offset_inside_character', 'error_offset_outside_input')) and '\r\n' in d.get('text', '') and \
                re.search(r'''['"]''', d.get('text', '')):
            # (a string token holding a CRLF: triple-quoted, or any literal with a backslash-CRLF join inside)
            return 'C03-F2'
        return None


def _only_comments(text):
    import re
    body = re.sub(r'#[^\r\n]*', '', text.lstrip('﻿'))
    return not body.strip(' \t\x0c\r\n\\')


def _short(r):
    s = str(r)
    return s if len(s) < 400 else s[:400] + '...'


PROP = C03()
