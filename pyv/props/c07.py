"""C07 — f-strings decompose into the reference literal parts and replacement fields (DESIGN.md 6/C07)."""
import re
from ..engine import Failure
from ..known import open_ids
from ..choice import ChoiceStream
from ..gen.pygen import PyGen, T
from ..gen.layout import render, Layout
from ..gen import literals
from .. import ref
from .c01 import ProgramProperty, norm_path, trim
from .c02 import Walker


class C07(ProgramProperty):
    configs = ('A', 'C', 'D')
    id = 'C07'
    technique = ('grammar-based property testing of f-string bodies (pre-PEP 701 rules) with a differential oracle: CPython JoinedStr / FormattedValue structure, '
                 'inner-expression positions, and re-parsing source[range]')
    level_text = ('~80k (quick) / 1M (thorough) generated f-strings (literal text, escapes, doubled braces, fields holding arbitrary expressions with brackets, '
                  'strings, comparisons, lambdas, walrus, !=, conversions, specs with nested fields, = forms; single / triple, raw / non-raw, concatenated with plain '
                  'and other f-strings): the whole tree must equal CPython\'s, every expression inside a field must carry CPython\'s byte range, and slicing the '
                  'source by that range must re-parse to the same expression')
    level_note = 'trusts CPython 3.11 ast for structure and positions; listed open findings (CRLF offsets, concatenation extents, spec escapes) are tallied separately'
    rule = ('statement = expression built around a generated f-string concatenation; non-trivial = >= 1 field and one of {spec, nested field, conversion, = form, '
            'doubled brace, concatenation, triple / raw, bracket / colon / != inside the expression}; distinct by case hash')

    def budget(self, tier):
        return 80000 if tier == 'quick' else 1000000

    def avoid(self):
        return {'C01-F1', 'C01-F2', 'C01-F3', 'C01-F4', 'C01-F22', 'C01-F23', 'C01-F24'}

    def open(self):
        return open_ids('C01') | open_ids('C02') | open_ids('C07')

    def explicit_cases(self, ctx):
        for t in ["f'{x:=10}'", "f'{x:=^5}'", "f'{x!r:=>8}'", "'-' '-' f'{x}'", "f'x={x=}'", "f'{x}' 'ab' 'ab'", "f'{a}{a}' f'{a}'", "'' '' f'{x}'", "f'{x:}'", "f'{x=:}'", "f'{x!s:}'",
                  "f'{x}'", "f'{x!r}'", "f'{x!s:>10}'", "f'{x:{w}.{p}}'", "f'{x=}'", "f'{x = }'", "f'{x=!s}'", "f'{x=:>5}'", "f'{{x}}'", "f'a{{{x}}}b'", "rf'\\d{x}'", "f'{x}' 'y' f'{z}'",
                  "'a' f'{x}'", "u'a' f'{x}'", "f'{a[1:2]}'", "f'{ {1: 2}[1] }'", "f'{(lambda x: x)(1)}'", "f'{a != b}'", "f'{a!=b!r}'", "f'{(y := 1)}'", "f'{x:{y:}}'", "f'''{x}\n{y}'''",
                  "f'{x:%Y-%m-%d}'", "f'{x:!r}'", "f'{a if b else c}'", "f'{x,}'", "f'{*a,}'", "f'{x}' f'{y!r}' f'{z:3}'", "f\"{'a' 'b'}\"", "f'{f(a=1)}'", "f'{x:\\x41}'", "f'{x:{y=}}'",
                  "f'{x}\\N{DIGIT ONE}{y}'", "f'\\{x}'", "f'{x:é}'", "f'é{é}é'", "f'{\"é\" + x}'", "F'{x}'", "fR'{x}\\n'", "Rf'{x}'", "f'{x!a}'", "f'{ x }'", "f'{x:}'", "f'{x:{{}}}'" if False else "f'{x}}}'"]:
            yield {'text': t, 'mode': 'eval', 'py312': False}

    def gen(self, cs, ctx):
        g = PyGen(cs, budget=6 + cs.choice(24 if ctx.tier == 'quick' else 80), py312=False, avoid=self.avoid() & self.open())
        lits = literals.gen_string_concat(cs, g, force_f=True)
        j = cs.choice(6)
        if j == 0:
            toks = lits
        elif j == 1:
            toks = [g.name(), T('=', 'o')] + lits
        elif j == 2:
            toks = [T('(', '('), g.name(), T(',', ',')] + lits + [T(')', ')')]
        elif j == 3:
            toks = lits + [T('.', '.'), T('format', 'n'), T('(', '('), T(')', ')')]
        elif j == 4:
            toks = [T('print', 'n'), T('(', '(')] + lits + [T(',', ','), T('é', 'n'), T(')', ')')]
        else:
            toks = [T('é', 'n'), T('+', 'o')] + lits
        items = [('line', toks)]
        lay = Layout(ChoiceStream(cs.d[::-1])) if cs.bool(100) else None
        text = render(items, lay).text.replace('µ', 'mu')  # NFKC-unstable identifier: C01-F4
        for f in g.features:
            if f.startswith('fstring'):
                ctx.count('feat_' + f)
        return {'text': text, 'mode': 'exec', 'py312': False}

    def nontrivial(self, case, ctx):
        t = case['text']
        return bool(re.search(r'\{[^{]', t)) and bool(re.search(r'![rsa]|:|=\s*[!:}]|\{\{|\}\}|[\'"]\s*[a-zA-Z]{0,2}[\'"]|\'\'\'|"""|[rR][fF]|[fF][rR]|\[|!=', t))

    def check(self, case, ctx):
        r = self.reference(case, ctx)
        if r is None:
            return None
        if r[0] != 'ok':
            ctx.count('gen_invalid')
            return None
        sut = ctx.sut('A')
        s = sut.call('parse', src=case['text'], mode=case['mode'])
        if 'ok' not in s:
            return Failure('rejects_valid' if 'err' in s else 'panic_or_crash', text=case['text'], reply=str(s)[:400])
        want, got = r[1], s['ok']
        d = ref.first_diff(ref.erase(want), ref.erase(got))
        if d:
            return Failure('tree_differs:' + norm_path(d[0]), text=case['text'], path=d[0], reference=trim(d[1]), got=trim(d[2]))
        # the decomposition is the same in every feature configuration: a third of the literals also go through the full-lexer
        # build (the nested field parser sees comment / non-logical-newline tokens there) and the num-bigint build
        import zlib
        other = {0: 'C', 1: 'D'}.get(zlib.crc32(case['text'].encode('utf-8')) % 6)
        if other:
            ctx.count('also_in_build_' + other)
            s2 = ctx.sut(other).call('parse', src=case['text'], mode=case['mode'])
            if 'ok' not in s2:
                return Failure(('rejects_valid:' if 'err' in s2 else 'panic_or_crash:') + other, text=case['text'], reply=str(s2)[:400])
            d = ref.first_diff(ref.erase(got), ref.erase(s2['ok']))
            if d:
                return Failure('tree_differs_between_builds:%s:%s' % (other, norm_path(d[0])), text=case['text'], path=d[0], default_build=trim(d[1]), other_build=trim(d[2]))
        data = case['text'].encode('utf-8')
        w = Walker(data, self, case, ctx)
        w.structural(got, '', None, None, None)
        w.compare(want, got, '')
        fails = [f for f in w.fails if 'JoinedStr' in str(f.detail.get('path', '')) or 'FormattedValue' in str(f.detail.get('path', ''))]
        # slicing the source by an inner expression's range yields exactly that expression's text
        if not fails:
            self.reparse_fields(got, data, sut, fails, case, ctx)
        return fails or None

    def reparse_fields(self, tree, data, sut, fails, case, ctx):
        def walk(x, in_field):
            if isinstance(x, dict):
                if x.get('_') == 'FormattedValue':
                    v = x['value']
                    a, b = v['range']
                    src = data[a:b].decode('utf-8', 'replace')
                    if v['_'] == 'Tuple' and src.startswith('{') and src.endswith('}'):
                        # a bare tuple as the whole field: CPython itself gives it the extent of the braces (it parses the
                        # field inside substituted parentheses); layer 2 already compared that extent with the reference
                        ctx.count('bare_tuple_field_extent_is_the_braces')
                        return
                    # (wrapped in parentheses like the field itself: a bare `yield` / walrus is only an expression inside them)
                    p = sut.call('parse', src='(' + src + ')', mode='eval')
                    ctx.count('field_expressions_reparsed')
                    if 'ok' not in p or ref.first_diff(ref.erase(p['ok']['body']), ref.erase(v)):
                        fails.append(Failure('field_range_does_not_slice_to_the_expression', text=case['text'], range=[a, b], sliced=src, path='FormattedValue.value'))
                    if x.get('format_spec'):
                        walk(x['format_spec'], True)
                    return
                for val in x.values():
                    walk(val, in_field)
            elif isinstance(x, list):
                for val in x:
                    walk(val, in_field)
        walk(tree, False)

    def known(self, case, f, ctx):
        ids = self.open()
        t = case['text']
        sig, d = f.signature, f.detail
        if 'C07-F1' in ids and sig.startswith('tree_differs') and 'format_spec' in d.get('path', '') and re.search(r':[^}]*\\', t):
            return 'C07-F1'
        if 'C07-F2' in ids and sig.startswith('tree_differs') and 'format_spec' in d.get('path', '') and re.search(r':[^}]*\{[^}]*=\s*[!:}]', t):
            return 'C07-F2'
        if 'C07-F3' in ids and '\r\n' in t and (sig.startswith(('range_differs', 'child_outside_parent', 'siblings_overlap', 'range_not_on_char', 'range_outside')) or
                                                 sig == 'field_range_does_not_slice_to_the_expression'):
            return 'C07-F3'
        if 'C07-F4' in ids and (sig.startswith('range_differs:FormattedValue') or ('FormattedValue.format_spec' in d.get('path', '') and
                                                                                    sig.startswith(('range_differs:Constant', 'range_differs:JoinedStr')))):
            if d['reference'][0] <= d['got'][0] and d['got'][1] <= d['reference'][1]:
                return 'C07-F4'
        if 'C07-F5' in ids and sig.endswith('Constant.kind') and 'format_spec' in d.get('path', '') and re.search(r'(?<![A-Za-z0-9_])u[\'"]', t):
            return 'C07-F5'
        if 'C07-F6' in ids and sig == 'rejects_valid' and re.search(r'''\{[^}]*('{3}|"{3})''', t, re.S):
            return 'C07-F6'
        # range findings that are not specific to f-strings (they also occur outside them) are C02's
        from .c02 import PROP as C02
        return C02.known(dict(case, marks=[]), f, ctx)


PROP = C07()
