"""C12 — Fold and Visitor traverse the whole tree faithfully (DESIGN.md 6/C12)."""
import json, os, collections
from ..engine import Failure, VERIF
from ..known import open_ids
from ..choice import ChoiceStream
from .. import ref
from .c01 import ProgramProperty, public, trim, norm_path

META = json.load(open(os.path.join(VERIF, 'pyv', 'asdl_meta.json')))
VISIT_CLASS = {}
for _sum, _kinds in META['sums'].items():
    if _sum in ('stmt', 'expr', 'pattern', 'excepthandler'):
        for _k in _kinds:
            VISIT_CLASS[_k] = _sum


def walk_nodes(x, out):
    """independent pre-order walk of the canonical JSON: every node with its kind and range"""
    if isinstance(x, dict):
        if '_' in x:
            out.append((x['_'], x.get('range')))
        for k, v in x.items():
            if k not in ('_', 'range'):
                walk_nodes(v, out)
    elif isinstance(x, list):
        for v in x:
            walk_nodes(v, out)
    return out


def reference_optimize(x):
    """15-line reference of the constant-tuple optimiser on the canonical JSON: bottom-up, a Load-context Tuple whose
    elements are all constants becomes the equal tuple Constant with the same range; nothing else changes"""
    if isinstance(x, list):
        return [reference_optimize(v) for v in x]
    if not isinstance(x, dict):
        return x
    y = {k: reference_optimize(v) for k, v in x.items()}
    if y.get('_') == 'Tuple' and all(isinstance(e, dict) and e.get('_') == 'Constant' for e in y['elts']) and y.get('ctx') == 'Load':
        return {'_': 'Constant', 'range': y['range'], 'value': {'c': 'tuple', 'v': [e['value'] for e in y['elts']]}, 'kind': None}
    return y


def compare_tagged(orig, tagged, log, path, seen, bad):
    """the tagged tree has the shape of the original with each range replaced by a distinct tag whose logged range is the original's"""
    if isinstance(orig, list):
        if not isinstance(tagged, list) or len(orig) != len(tagged):
            return bad('fold_changes_list_length', path=path)
        for i, (a, b) in enumerate(zip(orig, tagged)):
            compare_tagged(a, b, log, '%s[%d]' % (path, i), seen, bad)
        return
    if isinstance(orig, dict) and '_' in orig:
        if not isinstance(tagged, dict) or tagged.get('_') != orig['_']:
            return bad('fold_changes_node_kind', path=path, original=orig.get('_'), folded=tagged.get('_') if isinstance(tagged, dict) else None)
        r, t = orig.get('range'), tagged.get('range')
        if r is None:
            if t is not None:
                bad('fold_maps_absent_range', path=path)
        else:
            if not isinstance(t, dict) or 'tag' not in t:
                bad('fold_did_not_map_range', path=path, kind=orig['_'])
            else:
                tag = t['tag']
                if tag in seen:
                    bad('fold_tag_used_twice', path=path, kind=orig['_'], tag=tag, first=seen[tag])
                seen[tag] = path
                if log.get(tag) != r:
                    bad('fold_node_moved_or_wrong_range', path=path, kind=orig['_'], expected=r, mapped=log.get(tag))
        for k, v in orig.items():
            if k in ('_', 'range'):
                continue
            if k not in tagged:
                bad('fold_drops_field', path=path + '.' + k)
                continue
            compare_tagged(v, tagged[k], log, path + '/' + orig['_'] + '.' + k, seen, bad)
        return
    if isinstance(orig, dict):
        if orig != tagged and not ('range' in orig):
            for k in orig:
                compare_tagged(orig[k], tagged.get(k) if isinstance(tagged, dict) else None, log, path + '.' + k, seen, bad)
        return
    if orig != tagged:
        bad('fold_changes_leaf', path=path, original=trim(orig), folded=trim(tagged))


class C12(ProgramProperty):
    fuzz_target = 'fuzz_fold'

    def fuzz_seeds(self):
        from ..fuzz import program_seeds
        return program_seeds()

    id = 'C12'
    configs = ('A', 'B')
    technique = ('model-comparison property testing: Hypothesis/PyGen programs (every node kind, optional fields present/absent, lists of length 0/1/many) run through '
                 'identity fold, a tagging fold, a tracing Visitor and the optimiser; compared with an independent ASDL-derived walk and a reference optimiser')
    level_text = ('~40k (quick) / 300k (thorough) generated programs on the all-nodes-with-ranges and the default build: identity fold returns an equal tree; the '
                  'range-mapping callback runs exactly once per range-carrying node and every node keeps its place; the default Visitor reaches every statement, '
                  'expression, pattern and handler exactly once; the optimiser equals a 15-line reference and is idempotent')
    level_note = 'the walk used as the model is generated from Python.asdl independently of gen/fold.rs and gen/visitor.rs; trees come from the parser (C01)'
    rule = ('PyGen programs; non-trivial = tree with >= 10 nodes and >= 1 product-type node (arguments, keyword, comprehension, withitem, match_case, alias, arg) '
            'or a constant tuple; distinct by case hash; node-kind and field-cardinality tables in classes')

    def budget(self, tier):
        return 40000 if tier == 'quick' else 300000

    def avoid(self):
        return set()

    def gen(self, cs, ctx):
        case = self.gen_program(cs, ctx, py312_p=60)
        return public(case)

    def nontrivial(self, case, ctx):
        t = case['text']
        import re
        return len(re.findall(r'\w+', t)) >= 10 and bool(re.search(r'\bdef\b|\blambda\b|\bfor\b|\bwith\b|\bcase\b|\bimport\b|=|\(\s*[\d\'"][^()]*,', t))

    def check(self, case, ctx):
        fails = []
        for cfg in ('A', 'B'):
            sut = ctx.sut(cfg)
            r = sut.call('tree_ops', src=case['text'], mode=case['mode'])
            if 'tree' not in r:
                if 'err' in r:
                    ctx.count('not_parsed')
                    return None
                return Failure('panic_or_crash:' + cfg, text=case['text'], reply=str(r)[:300])

            def bad(sig, **d):
                fails.append(Failure(sig + ':' + cfg, text=case['text'], mode=case['mode'], **d))
            tree = r['tree']
            nodes = walk_nodes(tree, [])
            ranged = [(k, rg) for k, rg in nodes if rg is not None]
            # (a) identity fold
            if not r['identity_equal'] or r['identity_tree'] != tree:
                d = ref.first_diff(tree, r['identity_tree'])
                bad('identity_fold_changes_tree', diff=trim(d))
            # (b) tagging fold
            log = {}
            dup = False
            for tag, a, b in r['tag_log']:
                if tag in log:
                    dup = True
                log[tag] = [a, b]
            if dup:
                bad('map_user_called_twice_with_one_context')
            if len(r['tag_log']) != len(ranged) or r['will_calls'] != len(ranged):
                bad('map_user_call_count', calls=len(r['tag_log']), will_calls=r['will_calls'], range_carrying_nodes=len(ranged))
            compare_tagged(tree, r['tagged'], log, '', {}, bad)
            # (c) default Visitor
            want = collections.Counter((VISIT_CLASS[k], tuple(rg)) for k, rg in nodes if k in VISIT_CLASS)
            got = collections.Counter((k, (a, b)) for k, a, b in r['visited'])
            if want != got:
                missing = list((want - got).items())[:4]
                extra = list((got - want).items())[:4]
                kinds = sorted({self.kind_at(tree, m[0]) for m in missing})[:6] if missing else []
                bad('visitor_misses_nodes' if missing else 'visitor_visits_twice', missing=missing, extra=extra, n_missing=sum((want - got).values()), missing_under=kinds)
            # (d) optimiser
            exp = reference_optimize(tree)
            if r['opt'] != exp:
                d = ref.first_diff(exp, r['opt'])
                bad('optimizer_differs_from_reference', diff=trim(d))
            if not r['opt_idempotent']:
                bad('optimizer_not_idempotent')
            if cfg == 'A':
                for k, _ in nodes:
                    ctx.count('kind:' + k)
                if exp != tree:
                    ctx.count('programs_with_constant_tuple')
        return fails or None

    @staticmethod
    def kind_at(tree, key):
        return key[0]

    def known(self, case, f, ctx):
        return None


PROP = C12()
