"""C02 — node ranges are the exact source extent of each construct (DESIGN.md 6/C02)."""
import re, json
from ..engine import Failure
from ..known import open_ids
from .. import ref
from .c01 import ProgramProperty, public, trim, stdlib_files

POSITIONED = None  # kinds CPython positions: every node whose reference range is not None


def boundaries(data):
    """set of byte offsets that are UTF-8 character boundaries"""
    return [i for i in range(len(data) + 1) if i == len(data) or (data[i] & 0xC0) != 0x80]


class Walker:
    """parallel walk of the reference tree and the SUT tree (structurally equal per C01)"""

    def __init__(self, data, prop, case, ctx):
        self.data = data
        self.n = len(data)
        self.bset = set(boundaries(data))
        self.fails = []
        self.prop = prop
        self.case = case
        self.ctx = ctx
        self.nodes = 0
        self.by_kind = {}

    def bad(self, sig, **detail):
        if len(self.fails) < 40:
            self.fails.append(Failure(sig, text=self.case['text'], mode=self.case['mode'], **detail))

    def structural(self, s, path, parent_range, parent_kind, field):
        """layer 1 on the SUT tree alone"""
        if isinstance(s, list):
            prev = None
            for i, x in enumerate(s):
                self.structural(x, '%s[%d]' % (path, i), parent_range, parent_kind, field)
                if isinstance(x, dict) and x.get('range') and '_' in x:
                    # JoinedStr.values is exempt: the *reference* gives every Constant piece of an implicit concatenation the
                    # range of the whole concatenation (layer 2 compares those extents), so its siblings overlap by definition
                    if prev is not None and x['range'][0] < prev[1] and not (parent_kind == 'JoinedStr' and field == 'values'):
                        self.bad('siblings_overlap_or_out_of_order:%s.%s' % (parent_kind, field), path=path, first=prev, second=x['range'])
                    prev = x['range']
            return
        if not isinstance(s, dict) or '_' not in s:
            return
        r = s.get('range')
        kind = s['_']
        if r is not None:
            self.nodes += 1
            a, b = r
            if not (0 <= a <= b <= self.n):
                self.bad('range_outside_input_or_inverted:' + kind, path=path, range=r, len=self.n)
                return
            if a not in self.bset or b not in self.bset:
                self.bad('range_not_on_char_boundary:' + kind, path=path, range=r)
                return
            if parent_range is not None and not (parent_range[0] <= a and b <= parent_range[1]):
                if not (field == 'decorator_list'):
                    self.bad('child_outside_parent:%s.%s' % (parent_kind, field), path=path, parent=parent_range, child=r, child_kind=kind)
        pr = r if r is not None else parent_range
        pk = kind if r is not None else parent_kind
        for f, v in s.items():
            if f in ('_', 'range'):
                continue
            if isinstance(v, (dict, list)):
                self.structural(v, path + '/' + kind + '.' + f, pr, pk if r is None else kind, f if r is not None else field)

    def compare(self, r, s, path):
        """layer 2: reference extents where the reference positions the node"""
        if isinstance(r, list):
            for i, (x, y) in enumerate(zip(r, s)):
                self.compare(x, y, '%s[%d]' % (path, i))
            return
        if not isinstance(r, dict) or '_' not in r or not isinstance(s, dict):
            return
        rr, sr = r.get('range'), s.get('range')
        kind = r['_']
        if rr is not None and sr is not None and rr != sr:
            which = ('start' if rr[0] != sr[0] else '') + ('end' if rr[1] != sr[1] else '')
            if not self.semicolon_quirk(rr, sr, kind):
                self.bad('range_differs:%s:%s' % (kind, which), path=path, reference=rr, got=sr,
                         tail=self.data[sr[1]:rr[1]].decode('utf-8', 'replace')[:300] if rr[0] == sr[0] and sr[1] < rr[1] else None,
                         ref_text=self.data[rr[0]:rr[1]].decode('utf-8', 'replace')[:120], got_text=self.data[sr[0]:sr[1]].decode('utf-8', 'replace')[:120])
        if sr is not None:
            self.by_kind.setdefault(kind, []).append((sr, r, s))
        for f in r:
            if f in ('_', 'range'):
                continue
            if isinstance(r[f], (dict, list)) and f in s:
                self.compare(r[f], s[f], path + '/' + kind + '.' + f)

    def semicolon_quirk(self, rr, sr, kind):
        """CPython extends the end of a compound statement over a trailing ';' of its last simple statement;
        the statement's own text ends before it: the own-text extent wins and the case is counted"""
        if rr[0] == sr[0] and rr[1] > sr[1] and re.fullmatch(rb'([ \t\x0c]|\\\r\n|\\\r|\\\n)*;', self.data[sr[1]:rr[1]]):
            self.ctx.count('ref_quirk_semicolon')
            return True
        return False


class C02(ProgramProperty):
    fuzz_target = 'fuzz_ranges'

    def fuzz_seeds(self):
        from ..fuzz import program_seeds
        return program_seeds()

    id = 'C02'
    technique = ('grammar-based property testing (PyGen programs under position-stressing layouts) with structural range invariants, a differential oracle '
                 '(CPython line/col positions converted to byte offsets) and generator-side own-text extents')
    level_text = ('~50k (quick) / 500k (thorough) generated programs rendered with multi-byte text, CR/CRLF, BOM, continuation lines, redundant parentheses, '
                  'concatenated and f-strings; every range of the all-nodes-with-ranges tree is checked for containment/ordering/char boundaries, against '
                  "CPython's extent for positioned kinds and against the generator's own spans for comprehension / withitem / match_case")
    level_note = 'trusts CPython 3.11/3.12 positions (known position quirk on trailing semicolons handled by rule) and the layout renderer\'s span bookkeeping'
    rule = ('PyGen programs under random layouts; non-trivial = >= 8 ranged nodes and at least one of {multi-byte char, CR/CRLF, BOM, continuation line, '
            'redundant parentheses, f-string field, concatenation}; distinct by case hash')

    def budget(self, tier):
        return 50000 if tier == 'quick' else 500000

    def avoid(self):
        return {'C01-F1', 'C01-F2', 'C01-F3', 'C01-F4', 'C01-F22', 'C01-F23', 'C01-F24', 'C07-F1'}

    def open(self):
        return open_ids('C01') | open_ids('C02') | ({'C07-F1'} & open_ids('C07'))

    def explicit_cases(self, ctx):
        if ctx.tier == 'thorough':
            for i, path in enumerate(stdlib_files()):
                try:
                    data = open(path, 'rb').read()
                    text = data.decode('utf-8')
                except (OSError, UnicodeDecodeError):
                    continue
                if re.search(rb'coding[:=]\s*(?!utf-?8)', data[:200]) or len(data) > 300000:
                    continue
                yield {'text': text, 'mode': 'exec', 'py312': False, 'marks': [], 'file': path}
                if i % 5 == 0 and '\r' not in text:
                    yield {'text': text.replace('\n', '\r\n'), 'mode': 'exec', 'py312': False, 'marks': [], 'file': path + ' [CRLF]'}
                if i % 7 == 0 and '\r' not in text:
                    yield {'text': '\ufeff' + text.replace('\n', '\r'), 'mode': 'exec', 'py312': False, 'marks': [], 'file': path + ' [BOM+CR]'}

    def gen(self, cs, ctx):
        case = self.gen_program(cs, ctx)
        if any(c == 'µ' for c in case['text']):
            return None
        out = public(case)
        out['marks'] = sorted([k[0], v[0], v[1]] for k, v in case['_marks'].items() if v[0] is not None and v[1] is not None)
        return out

    def nontrivial(self, case, ctx):
        t = case['text']
        if len(re.findall(r'\w+', t)) < 8:
            return False
        return (not t.isascii()) or '\r' in t or '\\\n' in t or '\\\r' in t or bool(re.search(r'''[fF][rR]?['"]|['"]\s+['"]|\(\s*\(''', t))

    def check(self, case, ctx):
        r = self.reference(case, ctx)
        if r is None:
            return None
        if r[0] != 'ok':
            ctx.count('gen_invalid')
            return None
        sut = ctx.sut('A')
        s = sut.call('parse', src=case['text'], mode=case['mode'])
        if 'ok' not in s:
            ctx.count('not_parsed_(C01)')
            return None
        if s.get('ranged_mismatch'):
            return Failure('ranged_accessor_mismatch', text=case['text'], what=s['ranged_mismatch'])
        want, got = r[1], s['ok']
        if case['mode'] == 'single':
            want = {'_': 'Interactive', 'range': None, 'body': want['body']}
        if ref.first_diff(ref.erase(want), ref.erase(got)):
            ctx.count('tree_differs_(C01)')
            return None
        data = case['text'].encode('utf-8')
        w = Walker(data, self, case, ctx)
        w.structural(got, '', None, None, None)
        w.compare(want, got, '')
        self.own_text(case, got, w)
        ctx.count('ranged_nodes', w.nodes)
        return w.fails or None

    def own_text(self, case, got, w):
        """layer 3: generator spans for kinds the reference does not position"""
        marks = case.get('marks') or []
        if not marks:
            return
        spans = {}
        for kind, a, b in marks:
            spans.setdefault(kind, []).append([a, b])
        found = {}

        def walk(x):
            if isinstance(x, dict):
                if x.get('_') in ('comprehension', 'withitem', 'match_case') and x.get('range') is not None:
                    found.setdefault(x['_'], []).append(x)
                for v in x.values():
                    walk(v)
            elif isinstance(x, list):
                for v in x:
                    walk(v)
        walk(got)
        for kind in ('comprehension', 'withitem'):
            g = sorted(n['range'] for n in found.get(kind, []))
            e = sorted(spans.get(kind, []))
            if len(g) != len(e):
                continue  # markers inside f-string fields are not rendered: cannot be matched one-to-one
            if g != e:
                for a, b in zip(g, e):
                    if a != b and kind == 'withitem' and b[0] <= a[0] and a[1] <= b[1] and \
                            re.fullmatch(rb'[\s(]*+(#[^\r\n]*+[\r\n]++[\s(]*+)*+', w.data[b[0]:a[0]]) and re.fullmatch(rb'[\s)]*+(#[^\r\n]*+[\r\n]++[\s)]*+)*+', w.data[a[1]:b[1]]):
                        # `with (a):` - the parentheses may belong to the statement form or to the expression: either extent is the item's own text
                        w.ctx.count('withitem_paren_ambiguity')
                        continue
                    if a != b:
                        w.bad('own_text_differs:' + kind, got=a, expected=b, got_text=w.data[a[0]:a[1]].decode('utf-8', 'replace')[:100],
                              expected_text=w.data[b[0]:b[1]].decode('utf-8', 'replace')[:100])
                        return
        # match_case: from the `case` keyword (marker start) to the end of its last body statement
        mc = sorted(found.get('match_case', []), key=lambda n: n['range'][0])
        ms = sorted(spans.get('match_case', []))
        if len(mc) == len(ms):
            for n, span in zip(mc, ms):
                exp = [span[0], n['body'][-1]['range'][1]]
                if n['range'] != exp:
                    w.bad('own_text_differs:match_case', got=n['range'], expected=exp)
                    return

    # ---- listed findings
    def known(self, case, f, ctx):
        ids = open_ids('C02')
        sig = f.signature
        d = f.detail
        t = case['text']
        if 'C02-F1' in ids and sig == 'range_differs:NamedExpr:end' and d.get('tail') and \
                re.fullmatch(r'(?:[\s)]|\\[\r\n]+|#[^\r\n]*+)*+', d['tail']) and ')' in d['tail']:
            # the missing part consists of closing parentheses (with layout between them) only
            return 'C02-F1'
        data = t.encode('utf-8')
        LAYOUT = rb'(?:[ \t\x0c\r\n]|\\\r\n|\\\r|\\\n|#[^\r\n]*+)*+'
        if 'C02-F2' in ids and sig.startswith('range_differs:GeneratorExp') and 'Call.args[0]' in d['path']:
            # exactly the finding: the reference extent is this parser's extent plus the call's own parentheses
            rr, gr = d['reference'], d['got']

            def shape(g0, g1):
                return rr[0] <= g0 and g1 <= rr[1] and re.fullmatch(rb'\(' + LAYOUT, data[rr[0]:g0]) and re.fullmatch(LAYOUT + rb'\)', data[g1:rr[1]])
            if shape(gr[0], gr[1]):
                return 'C02-F2'
            if 'C02-F6' in ids and 'JoinedStr' in d['path'] and '\r\n' in t:
                # both findings at once: inside an f-string with CRLFs the extent is also short by up to one byte per CRLF
                n = min(data[:rr[1]].count(b'\r\n'), 12)
                if any(shape(gr[0] + a, gr[1] + b) for a in range(n + 1) for b in range(n + 1)):
                    return 'C02-F6'
        if 'C02-F3' in ids and (sig.startswith('range_differs:FormattedValue') or
                                ('FormattedValue.format_spec' in d.get('path', '') and sig.startswith(('range_differs:Constant', 'range_differs:JoinedStr')))):
            # only pieces of implicitly concatenated literals: the reference extent is the whole concatenation, this parser's
            # extent is exactly one of the literals of that concatenation
            rr, gr = d['reference'], d['got']
            if rr[0] <= gr[0] and gr[1] <= rr[1] and rr != gr and self.one_string_token(data[gr[0]:gr[1]]) and self.string_tokens(data[rr[0]:rr[1]]) >= 2:
                return 'C02-F3'
        if 'C02-F4' in ids and sig in ('siblings_overlap_or_out_of_order:With.items', 'siblings_overlap_or_out_of_order:AsyncWith.items', 'own_text_differs:withitem') and re.search(r'with(\s|\\\r\n|\\\r|\\\n)*\(', t):
            # exactly the finding: the range in question is the inside of the parenthesised group that directly follows `with`
            gr = d.get('got') or d.get('second') or d.get('first')
            if gr and re.search(rb'with' + LAYOUT + rb'\(' + LAYOUT + rb'\Z', data[max(0, gr[0] - 4000):gr[0]]) and re.match(LAYOUT + rb'[,)]', data[gr[1]:]):
                return 'C02-F4'
        if 'C02-F5' in ids and sig == 'child_outside_parent:arg_with_default.default':
            return 'C02-F5'
        if 'C02-F6' in ids and '\r\n' in t and 'JoinedStr' in str(d.get('path', '')) and sig.startswith(('range_differs', 'child_outside_parent', 'siblings_overlap', 'range_not_on_char', 'range_outside')):
            # exactly the finding: positions are short by at most one byte per CRLF in front of them
            if sig.startswith('range_differs'):
                rr, gr = d['reference'], d['got']
                n = data[:rr[1]].count(b'\r\n')
                if 0 <= rr[0] - gr[0] <= n and 0 <= rr[1] - gr[1] <= n:
                    return 'C02-F6'
            else:
                return 'C02-F6'
        if 'C02-F7' in ids and sig.startswith('range_differs:Tuple') and d.get('path', '').endswith('Match.subject'):
            # exactly the finding: the parts missing from this parser's extent are an opening parenthesis in front and a
            # closing parenthesis and / or the trailing comma behind
            rr, gr = d['reference'], d['got']
            if rr[0] <= gr[0] and gr[1] <= rr[1] and re.fullmatch(rb'(?:\(|' + LAYOUT[3:-3] + rb')*', data[rr[0]:gr[0]]) and \
                    re.fullmatch(rb'(?:[),]|' + LAYOUT[3:-3] + rb')*', data[gr[1]:rr[1]]):
                return 'C02-F7'
        return None

    _ESC = rb'\\(?:\r\n|.)'
    _STR = re.compile(rb"(?is:[rbuf]{0,2}(?:'''(?:[^\\]|" + _ESC + rb")*?'''|\"\"\"(?:[^\\]|" + _ESC + rb")*?\"\"\"|'(?:[^\\\r\n']|" + _ESC + rb")*+'|\"(?:[^\\\r\n\"]|" + _ESC + rb")*+\"))")
    _LAY = re.compile(rb'(?:[ \t\x0c\r\n]|\\\r\n|\\\r|\\\n|#[^\r\n]*+)++')

    @classmethod
    def string_tokens(cls, b):
        """number of string literal tokens if the bytes are nothing but string literals and layout, else 0"""
        pos, n = 0, 0
        while pos < len(b):
            m = cls._LAY.match(b, pos)
            if m:
                pos = m.end()
                continue
            m = cls._STR.match(b, pos)
            if not m:
                return 0
            pos = m.end()
            n += 1
        return n

    @classmethod
    def one_string_token(cls, b):
        return cls.string_tokens(b) == 1


PROP = C02()
