"""C18 — format-spec parsing and formatting equal Python's format() (DESIGN.md 6/C18)."""
import re, struct
from ..engine import Property, Failure
from ..known import open_ids
from .. import valuegen as vg


def bits(v):
    return '%016x' % struct.unpack('<Q', struct.pack('<d', v))[0]


def unbits(h):
    return struct.unpack('<d', struct.pack('<Q', int(h, 16)))[0]


TYPES = 'bcdeEfFgGnosxX%'
FILLS = ['*', ' ', '0', 'x', '<', '>', '=', '^', '+', '-', '#', ',', '_', '.', 'é', '中', '\U0001f600', '{', '}', '1', 'z']
SPEC_ALPHABET = "<>=^+- #0123456789,_.bcdeEfFgGnosxX%z!ra*é"
DIGIT_RUN = re.compile(r'\d+')


def gen_spec(cs):
    """field-wise generation: [[fill]align][sign][z][#][0][width][grouping][.precision][type]"""
    s = ''
    if cs.bool(110):
        if cs.bool(150):
            if cs.bool(40):
                cp = cs.choice(0x110000)       # any character can be the fill
                s += chr(cp) if not 0xD800 <= cp <= 0xDFFF else 'x'
            else:
                s += cs.pick(FILLS)
        s += cs.pick('<>=^')
    if cs.bool(80):
        s += cs.pick('+- ')
    if cs.bool(10):
        s += 'z'
    if cs.bool(50):
        s += '#'
    if cs.bool(50):
        s += '0'
    if cs.bool(150):
        s += str(cs.pick([0, 1, 2, 3, 4, 5, 6, 7, 8, 9, 10, 11, 12, 13, 15, 16, 20, 25, 33, 40]) if cs.bool(200) else cs.choice(1000))
    if cs.bool(70):
        s += cs.pick(',_')
    if cs.bool(90):
        s += '.' + str(cs.pick([0, 0, 1, 1, 2, 3, 4, 5, 6, 10, 17, 20, 30]) if cs.bool(210) else cs.choice(400))
    if cs.bool(200):
        s += cs.pick(TYPES)
    if cs.bool(5):
        # a leading conversion, which `format()` never accepts (the region of C18-F7 for r/s/a/b)
        s = '!' + cs.pick('rsabxR!') + s
    # character-level mutation so that malformed specs are reached too
    m = cs.choice(12)
    if m == 0 and s:
        i = cs.choice(len(s) + 1)
        s = s[:i] + cs.pick(SPEC_ALPHABET) + s[i:]
    elif m == 1 and s:
        i = cs.choice(len(s))
        s = s[:i] + s[i + 1:]
    elif m == 2 and s:
        i = cs.choice(len(s))
        s = s[:i] + cs.pick(SPEC_ALPHABET) + s[i + 1:]
    elif m == 3:
        s = ''.join(cs.pick(SPEC_ALPHABET) for _ in range(cs.choice(6)))
    return s


def resource_ok(spec):
    """keep widths / precisions small enough not to allocate gigabytes on either side; digit runs of
    21+ digits overflow on both sides and are kept (they must be *rejected*)"""
    for m in DIGIT_RUN.finditer(spec):
        n = len(m.group(0).lstrip('0'))
        if 3 < n < 21:
            return False
    return True


QUANTITY_BORDERS = [2 ** 31 - 2, 2 ** 31 - 1, 2 ** 31, 2 ** 31 + 1, 2 ** 32 - 1, 2 ** 32, 2 ** 32 + 5, 2 ** 63 - 1, 2 ** 63, 2 ** 63 + 5, 2 ** 64 - 1, 2 ** 64, 2 ** 64 + 5, 10 ** 10, 10 ** 19]


def quantity_verdict(spec):
    """for a well-formed spec with a big width / precision: 'reject' when CPython raises before formatting (a width that does
    not fit Py_ssize_t: 'Too many decimal digits'; a precision above INT_MAX: 'precision too big'), 'parse_only' when it would
    go on to build a string of that size (only the parse is exercised then), None when the quantities are small"""
    f = spec_fields(spec)
    if f is None:
        return None
    w = int(f['width']) if f['width'] else None
    p = int(f['prec']) if f['prec'] else None
    if (w is not None and w > 2 ** 63 - 1) or (p is not None and p > 2 ** 63 - 1):
        return 'reject'
    if p is not None and p > 2 ** 31 - 1:
        return 'reject'
    if (w is not None and w > 999) or (p is not None and p > 999):
        return 'parse_only'
    return None


def py_format(kind, value, spec):
    try:
        return ('ok', format(value, spec))
    except (ValueError, OverflowError) as e:
        return ('err', '%s: %s' % (type(e).__name__, e))


def repr_has_tie(v):
    """True when another decimal string with as many digits as repr(v) also round-trips to v: two shortest
    renderings tie, Python and this library may legitimately pick different ones (C17 allows either)"""
    if v != v or v in (float('inf'), float('-inf')) or v == 0:
        return False
    r = repr(abs(v))
    mant, _, exp = r.partition('e')
    digits = mant.replace('.', '')
    for d in (-1, 1):
        n = str(int(digits) + d)
        if len(n) != len(digits.lstrip('0')) and len(n) != len(digits):
            continue
        n = n.rjust(len(digits), '0')
        pos = mant.find('.')
        cand = (n if pos < 0 else n[:pos] + '.' + n[pos:]) + ('e' + exp if exp else '')
        try:
            if float(cand) == abs(v):
                return True
        except ValueError:
            pass
    return False


PARSE_SPEC = re.compile(r'^(?:(?P<fill>.)?(?P<align>[<>=^]))?(?P<sign>[-+ ])?(?P<z>z)?(?P<alt>#)?(?P<zero>0)?(?P<width>\d+)?(?P<group>[,_])?'
                        r'(?:\.(?P<prec>\d+))?(?P<type>[bcdeEfFgGnosxX%])?$', re.S)


def spec_fields(spec):
    m = PARSE_SPEC.match(spec)
    return m.groupdict() if m else None


CODE_POINT_BORDERS = [-1, 0, 1, 0x7f, 0x80, 0xff, 0x100, 0x7ff, 0x800, 0xd7ff, 0xd800, 0xdfff, 0xe000, 0xfffd, 0xffff, 0x10000, 0x10fffe, 0x10ffff, 0x110000, 1 << 31, 1 << 32]


class C18(Property):
    id = 'C18'
    configs = ('A',)
    bytes_per_case = 96
    technique = 'property-based differential testing against CPython format() (Hypothesis, field-wise spec grammar + mutations)'
    level_text = ('~300k (quick) / 5M (thorough) generated (format-spec, value) pairs over ints of any size, structured doubles, multi-byte text and '
                  'bools, each compared with CPython format(): same text or both reject; panics are failures; listed open findings are excluded by '
                  'construction and counted')
    level_note = 'trusts CPython 3.11 format(); widths/precisions limited to 3 digits (or >= 21 digits, which must be rejected) to bound memory'
    rule = ('spec generated field-wise ([[fill]align][sign][z][#][0][width][,_][.prec][type]) then optionally mutated character-wise; value from '
            'int/float/str/bool generators; non-trivial = spec with >= 2 non-default fields; distinct by case hash')

    def budget(self, tier):
        return 300000 if tier == 'quick' else 5000000

    def explicit_cases(self, ctx):
        for spec in ['', 'd', 'x', '#x', '08.3f', ',', '_', ',d', '_x', '>10', '^10', '=+10', '+', ' ', '.3', '.3s', 'c', 'n', '%', 'e', 'g', '010,', '010_x',
                     '#010b', '<5', 's', '5s', '.0f', '#.0f', '.0e', '#g', 'G', 'E', 'F', '10.4', 'é^7', '\U0001f600>5', '00', '0=5', '1000000000000000000000',
                     '.1000000000000000000000', '!r', '!s5', 'z', 'zf', '=', '0', '-', '#', '05s', '=5s', '+s', ',s', '.2d', '.2x', 'N', 'b,', '5c', '+c', '#c']:
            for kind, value in (('int', '0'), ('int', '1234567'), ('int', '-1234567'), ('int', '65'), ('int', str(10 ** 30)), ('float', bits(1234.5678)),
                                ('float', bits(-0.0)), ('float', bits(float('inf'))), ('float', bits(float('nan'))), ('float', bits(1e16)),
                                ('float', bits(1e-7)), ('str', 'héllo'), ('str', ''), ('bool', True), ('bool', False)):
                yield {'spec': spec, 'kind': kind, 'value': value}
        # the 'c' conversion at the borders of the code point range (and of the UTF-8 length classes, the surrogates)
        for q in QUANTITY_BORDERS:
            for spec in ('%dd' % q, '.%df' % q, '>%ds' % q, '0%d.%dg' % (q, q), '+%dx' % q):
                v = quantity_verdict(spec)
                if v == 'parse_only':
                    yield {'spec': spec, 'kind': 'none', 'value': ''}
                elif v == 'reject':
                    yield {'spec': spec, 'kind': 'int' if spec[-1] in 'dx' else 'float' if spec[-1] in 'fg' else 'str', 'value': '7' if spec[-1] in 'dx' else bits(1.5) if spec[-1] in 'fg' else 'ab'}
        for v in CODE_POINT_BORDERS:
            for spec in ('c', '3c', '<4c', 'x^5c', '0c'):
                yield {'spec': spec, 'kind': 'int', 'value': str(v)}

    def gen(self, cs, ctx):
        if cs.bool(10):
            # width / precision at the borders of the machine-integer ranges
            q = str(cs.pick(QUANTITY_BORDERS) + cs.pick([0, 0, 1, -1]))
            spec = cs.pick(['', '>', '0', '+', 'x<', '#']) + (q if cs.bool() else cs.pick(['', '5']) + '.' + q) + cs.pick(['d', 'f', 's', 'x', 'g', '', 'e'])
            v = quantity_verdict(spec)
            if v == 'parse_only':
                return {'spec': spec, 'kind': 'none', 'value': ''}
            if v == 'reject':
                kind = cs.pick(['int', 'float', 'str'])
                return {'spec': spec, 'kind': kind, 'value': {'int': '7', 'float': bits(1.5), 'str': 'ab'}[kind]}
            return None
        spec = gen_spec(cs)
        if not resource_ok(spec) and quantity_verdict(spec) != 'reject':
            ctx.count('gen_resource_limited')
            return None
        k = cs.weighted([100, 90, 40, 26])
        if k == 0:
            value = str(vg.gen_int(cs))
            kind = 'int'
            if spec.endswith('c') and cs.bool(160):
                value = str(cs.pick(CODE_POINT_BORDERS) + cs.pick([0, 0, 1, -1]))
        elif k == 1:
            value = bits(vg.gen_double(cs))
            kind = 'float'
        elif k == 2:
            value = vg.gen_text(cs, 8, ['abc', 'éß', '中', '\U0001f600', "'\" ", '{}']) if cs.bool(170) else vg.gen_text(cs, 8)
            kind = 'str'
        else:
            value = cs.bool()
            kind = 'bool'
        case = {'spec': spec, 'kind': kind, 'value': value}
        if kind == 'float':
            f = spec_fields(spec)
            if f and f['type'] is None and f['prec'] is None and repr_has_tie(unbits(value)):
                ctx.count('excluded_repr_tie')  # C17 decides this path up to ties; text equality is not demanded
                return None
        ex = self.excluded(case)
        if ex:
            # the region of a listed finding: most of these cases are dropped (they would only re-state the finding), one in six is
            # kept - it is tallied under the finding when it fails in the listed way, and anything else (a panic above all) is reported
            if not cs.bool(42):
                ctx.count('excluded[%s]' % ex)
                return None
            ctx.count('kept_inside_region[%s]' % ex)
        return case

    def pyvalue(self, case):
        k = case['kind']
        if k == 'int':
            return int(case['value'])
        if k == 'float':
            return unbits(case['value'])
        return case['value']

    def nontrivial(self, case, ctx):
        f = spec_fields(case['spec'])
        if not f:
            return len(case['spec']) >= 2
        return sum(v is not None for v in f.values()) >= 2

    def check(self, case, ctx):
        sut = ctx.sut('A')
        if case['kind'] == 'none':
            # a quantity too large to format on either side but within what CPython parses: the spec must parse
            r = sut.call('format_spec', spec=case['spec'], kind='none', value='')
            ctx.count('big_quantity_parse_only')
            if 'panic' in r or 'crash' in r:
                return Failure('panic', case=case, reply=r)
            if quantity_verdict(case['spec']) == 'parse_only' and 'parsed' not in r:
                return Failure('rejects_valid', case=case, reply=r, python='(spec accepted; not formatted)')
            return None
        value = self.pyvalue(case)
        exp = py_format(case['kind'], value, case['spec'])
        # (every third spec goes in through the FromStr impl, the other public way to the same parser)
        via = len(case['spec']) % 3 == 1
        ctx.count('via_from_str' if via else 'via_parse')
        r = sut.call('format_spec', spec=case['spec'], kind=case['kind'], value=case['value'], via_from_str=via)
        ctx.count('%s_%s' % (case['kind'], exp[0]))
        if 'panic' in r or 'crash' in r:
            return Failure('panic', case=case, reply=r, python=exp)
        if exp[0] == 'ok' and any(0xD800 <= ord(c) <= 0xDFFF for c in exp[1]):
            # Python's answer holds a lone surrogate, which a Rust String cannot represent: only totality is demanded
            ctx.count('unrepresentable_surrogate_result')
            return None
        if exp[0] == 'ok':
            if 'ok' not in r:
                return Failure('rejects_valid', case=case, reply=r, python=exp[1])
            if r['ok'] != exp[1]:
                return Failure('wrong_text', case=case, got=r['ok'], expected=exp[1])
            return None
        if 'err' not in r:
            return Failure('accepts_invalid', case=case, got=r.get('ok'), python=exp[1])
        return None

    # ---- open findings: predicates over the parsed spec fields and value class (DESIGN.md 3.3)
    def region(self, case):
        """name of the listed-finding region the *input* lies in, or None (predicates over the spec fields
        as parsed by this module's own reference regex, and the value class)"""
        spec, kind = case['spec'], case['kind']
        if re.match(r'^![rsab]', spec):
            return 'C18-F7'
        if any(ch.isdecimal() and not ch.isascii() for ch in spec):
            return 'C18-F9'
        f = spec_fields(spec)
        if f is None:
            return None
        if f['z']:
            return 'C18-F2'
        if kind == 'str' and f['prec'] and int(f['prec']) > 2 ** 31 - 1:
            return 'C18-F8'
        if kind == 'str' and (f['align'] == '=' or f['zero']):
            return 'C18-F1'
        if f['type'] == 'c' and f['width'] and kind in ('int', 'bool') and kind == 'int' and int(case['value']) >= 128:
            return 'C18-F3'
        if kind == 'float' and f['type'] is None and f['prec'] is not None:
            return 'C18-F4'
        if kind == 'float' and f['type'] is None and f['alt']:
            return 'C18-F5'
        return None

    def excluded(self, case):
        r = self.region(case)
        return r if r in open_ids('C18') else None

    KINDS = {'C18-F7': ('accepts_invalid',), 'C18-F2': ('rejects_valid',), 'C18-F1': ('accepts_invalid', 'wrong_text'),
             'C18-F3': ('wrong_text',), 'C18-F4': ('wrong_text',), 'C18-F5': ('wrong_text',), 'C18-F8': ('rejects_valid',), 'C18-F9': ('rejects_valid',)}

    def known(self, case, f, ctx):
        r = self.region(case)
        # the same failure kind is required, a panic is never covered by a listed finding
        if r in open_ids('C18') and f.signature in self.KINDS[r]:
            return r
        return None


PROP = C18()
