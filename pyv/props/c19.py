"""C19 — printf-style (%) template parsing and formatting equal Python's (DESIGN.md 6/C19)."""
import re, struct
from ..engine import Property, Failure
from ..known import open_ids
from .. import valuegen as vg


def bits(v):
    return '%016x' % struct.unpack('<Q', struct.pack('<d', v))[0]


def unbits(h):
    return struct.unpack('<d', struct.pack('<Q', int(h, 16)))[0]


class RefError(Exception):
    def __init__(self, kind, index=None, ch=None):
        self.kind, self.index, self.ch = kind, index, ch


NUM_TYPES = 'diuoxX'
FLOAT_TYPES = 'eEfFgG'
TEXT_TYPES = NUM_TYPES + FLOAT_TYPES + 'csra'
BYTES_TYPES = NUM_TYPES + FLOAT_TYPES + 'csbar'


def ref_split(t, bytes_mode):
    """independent reference splitter written from the language reference (printf-style formatting):
    '%' [(key)] flags* [width|*] ['.' [precision|*]] [h|l|L] type"""
    types = BYTES_TYPES if bytes_mode else TEXT_TYPES
    parts, lit, i, n = [], '', 0, len(t)
    while i < n:
        c = t[i]
        if c != '%':
            lit += c
            i += 1
            continue
        start = i
        i += 1
        if i >= n:
            raise RefError('IncompleteFormat')
        if t[i] == '%':
            lit += '%'
            i += 1
            continue
        key = None
        if t[i] == '(':
            depth, j = 1, i + 1
            while j < n and depth:
                if t[j] == '(':
                    depth += 1
                elif t[j] == ')':
                    depth -= 1
                j += 1
            if depth:
                raise RefError('UnmatchedKeyParentheses')
            key = t[i + 1:j - 1]
            i = j
        flags = ''
        while i < n and t[i] in '#0- +':
            flags += t[i]
            i += 1
        width = None
        if i < n and t[i] == '*':
            width = '*'
            i += 1
        else:
            j = i
            while j < n and t[j] in '0123456789':
                j += 1
            if j > i:
                width = int(t[i:j])
                i = j
        prec = None
        if i < n and t[i] == '.':
            i += 1
            if i < n and t[i] == '*':
                prec = '*'
                i += 1
            else:
                j = i
                while j < n and t[j] in '0123456789':
                    j += 1
                prec = int(t[i:j]) if j > i else 'dot'
                i = j
        if i < n and t[i] in 'hlL':
            i += 1
        if i >= n:
            raise RefError('IncompleteFormat')
        ty = t[i]
        if ty == 'b' and not bytes_mode:
            # the library's splitter is shared by text and bytes templates: whether 'b' is allowed is the
            # caller's decision (Python rejects it for text at format time) -> outside the checked domain
            raise RefError('ModeSpecific', i, ty)
        if ty not in types:
            raise RefError('UnsupportedFormatChar', i, ty)
        i += 1
        if lit:
            parts.append({'lit': lit})
            lit = ''
        parts.append({'spec': {'key': key, 'flags': ''.join(sorted(set(flags))), 'width': width, 'prec': prec, 'type': ty}, 'at': start})
    if lit:
        parts.append({'lit': lit})
    return parts


def gen_arg_for(cs, ty, bytes_mode):
    if ty in NUM_TYPES:
        return {'t': 'int', 'v': str(vg.gen_int(cs))}
    if ty in FLOAT_TYPES:
        return {'t': 'float', 'v': bits(vg.gen_double(cs))}
    if ty == 'c':
        if bytes_mode:
            return {'t': 'bytes', 'v': '%02x' % cs.byte()}
        if cs.bool(128):
            cp = cs.choice(0x110000)
            return {'t': 'char', 'v': chr(cp) if not 0xD800 <= cp <= 0xDFFF else '\ud7ff'}
        return {'t': 'char', 'v': cs.pick('aZ 0é中\U0001f600\x00~\x7f\x80\xff\u0100\uffff\U00010000\U0010ffff')}
    if bytes_mode:
        n = cs.choice(12)
        return {'t': 'bytes', 'v': bytes(cs.pick(b'ab\x00\xff %') for _ in range(n)).hex()}
    if cs.bool(80):
        return {'t': 'str', 'v': vg.gen_text(cs, 10)}     # every character class, any code point
    return {'t': 'str', 'v': vg.gen_text(cs, 10, ['abc', 'éß', '中', '\U0001f600', "'\"\\", ' %', '\n\t'])}


def py_value(arg, ty):
    t = arg['t']
    if t == 'int':
        return int(arg['v'])
    if t == 'float':
        return unbits(arg['v'])
    if t == 'bytes':
        return bytes.fromhex(arg['v'])
    return arg['v']


def sut_arg(arg, ty, bytes_mode):
    """what the library's caller hands over: the conversion (str / repr / ascii) is the caller's job"""
    if arg['t'] == 'str' and ty in 'ra':
        v = repr(arg['v']) if ty == 'r' else ascii(arg['v'])
        return {'t': 'str', 'v': v}
    if arg['t'] == 'bytes' and ty in 'ra':
        return {'t': 'bytes', 'v': ascii(bytes.fromhex(arg['v'])).encode('ascii').hex()}
    return arg


def gen_unsupported_char(cs):
    """any character that is no conversion type, flag, digit or other part of a specifier"""
    for _ in range(4):
        cp = cs.choice(0x3000) if cs.bool() else cs.choice(0x110000)
        ch = chr(cp)
        if 0xD800 <= cp <= 0xDFFF or ch in 'diouxXeEfFgGcrsab%hlL#0- +.*(123456789':
            continue
        return ch
    return 'y'


UNSUPPORTED = 'ykpnzvwtjmqIOU!$&@,;:~^|é中_)/\\"\' \x00'


QUANTITY_BORDERS = [2 ** 31 - 2, 2 ** 31 - 1, 2 ** 31, 2 ** 31 + 1, 2 ** 31 + 2, 2 ** 32 - 1, 2 ** 32, 2 ** 32 + 1, 2 ** 63 - 1, 2 ** 63, 2 ** 64 - 1, 2 ** 64, 2 ** 64 + 1, 10 ** 10, 10 ** 19]


class C19(Property):
    id = 'C19'
    configs = ('A',)
    bytes_per_case = 160
    technique = "property-based differential testing against CPython's % operator (Hypothesis, template grammar, text and bytes) plus an independent reference splitter"
    level_text = ('~200k (quick) / 3M (thorough) generated templates (literal text, %%, specifiers with nested-parenthesis keys, repeated flags, '
                  'width/precision incl. *, length modifiers, every conversion and unsupported ones, truncated specifiers) with generated arguments: '
                  'split must equal the reference splitter, the formatted result must equal Python\'s, rejections must agree incl. the index; '
                  '`check_specifiers` must summarise the split (count, all keyed / none keyed / mixed - mixed templates are generated for it) and '
                  '`CFormatSpec::from_str` must read every specifier of the template as the splitter did (and refuse a text without `%`)')
    level_note = ("trusts CPython 3.11's % operator and a 60-line reference splitter written from the language reference; '*' quantities and the "
                  's/r/a conversions are resolved by the adapter / driver as a caller of the library must')
    rule = ('templates from a grammar over literal pieces (incl. multi-byte), %%, specifiers = [(key)] flags* [width|*] [.prec|.*|.] [hlL] type, '
            'unsupported type characters, truncation and character mutations; arguments: ints of any size, structured doubles, text, chars, byte '
            'strings shorter/longer than width and precision; non-trivial = a specifier with >= 2 of {flag, width, precision} or a mapping key; '
            'distinct by case hash')

    def budget(self, tier):
        return 200000 if tier == 'quick' else 3000000

    def explicit_cases(self, ctx):
        for t in ['%d', '%5d', '%-5d', '%05d', '%+d', '% d', '%#x', '%#o', '%.3d', '%05.3d', '%-05d', '%x', '%X', '%e', '%.0e', '%#.0e', '%g', '%G', '%f',
                  '%.2f', '%10.2f', '%-10.2f|', '%010.2f', '%+.1e', '%s', '%5s', '%-5s|', '%.2s', '%5.2s', '%c', '%5c', '%r', '%a', '%%', 'a%%b', '%', '%(', '%(a',
                  '%(a)', '%(a)d', '%(a(b))d', '%y', 'ab%y', '%ld', '%lld', '%hd', '%Ld', '%5', '%.', '%.d', '%5.', '%*d', '%.*f', '%*.*f', '%-*d', '%0*d',
                  '%99999999999999999999d', '%.99999999999d', '%5%', '%-5%', 'é%s中', '%#5x', '%#05x', '%#-5x|', '%+05d', '% 05d', '%i', '%u', '%.0f', '%#.0f',
                  '%#g', '%#.3g', '%.10g', '%+g', '%b', '%5b']:
            for bm in (False, True):
                yield {'template': t, 'bytes': bm, 'args': 'auto'}
        # width / precision quantities at the borders of the machine-integer ranges: the template is only split (formatting a
        # width of 2^31-1 is not attempted)
        for q in QUANTITY_BORDERS:
            for t in ('%%.%dd' % q, '%%%dd' % q, 'ab%%-%dx' % q, '%%(k).%df' % q, '%%5.%ds%%d' % q):
                for bm in (False, True):
                    yield {'template': t, 'bytes': bm, 'args': None, 'limits': True}

    def check_limits(self, case, ctx):
        """Python's rule for a written quantity: a precision above INT_MAX (2^31-1) is 'precision too big', a width above
        PY_SSIZE_T_MAX (2^63-1) is 'width too big'; everything up to 2^31-1 is accepted. (Widths between 2^31 and 2^63 would be
        accepted by CPython and then fail on memory; this library's quantities are 32-bit, so that band is only required not to panic.)"""
        sut = ctx.sut('A')
        t, bm = case['template'], case['bytes']
        r = sut.call('cformat_bytes', template=t.encode('latin-1').hex()) if bm else sut.call('cformat_str', template=t)
        if 'panic' in r or 'crash' in r:
            return Failure('panic', case=case, reply=r)
        try:
            parts = ref_split(t, bm)
        except RefError:
            return None
        verdict = 'accept'
        for p in parts:
            if 'spec' in p:
                w, pr = p['spec']['width'], p['spec']['prec']
                if isinstance(pr, int) and pr > 2 ** 31 - 1:
                    verdict = 'reject'
                elif isinstance(w, int) and w > 2 ** 63 - 1:
                    verdict = 'reject'
                elif isinstance(w, int) and w > 2 ** 31 - 1 and verdict == 'accept':
                    verdict = 'unspecified'
        ctx.count('quantity_limit_' + verdict)
        if verdict == 'reject' and r.get('err') != 'IntTooBig':
            return Failure('quantity_above_the_limit_not_rejected', case=case, got=r)
        if verdict == 'accept' and 'err' in r:
            return Failure('rejects_valid', case=case, got=r)
        return None

    def gen(self, cs, ctx):
        if cs.bool(12):
            q = cs.pick(QUANTITY_BORDERS) + cs.pick([0, 0, 1, -1, 2, 10])
            t = cs.pick(['%s', 'a%s', '%%d%s']) % (cs.pick(['%', '%-', '%0', '%(k)', '%#']) + (str(q) if cs.bool() else '.' + str(q)) + cs.pick('dsxfgc'))
            return {'template': t, 'bytes': cs.bool(64), 'args': None, 'limits': True}
        bytes_mode = cs.bool(64)
        keyed0 = cs.bool(40)
        mixed = cs.bool(24)      # (keyed and positional specifiers in one template: only the split and `check_specifiers` are compared)
        nparts = 1 + cs.choice(4)
        t = ''
        for _ in range(nparts):
            keyed = keyed0 if not mixed else cs.bool()
            k = cs.weighted([60, 16, 180])
            if k == 0:
                t += vg.gen_text(cs, 6, ['abc ', 'xyz', '()', '.5', 'é中\U0001f600'] if not bytes_mode else ['abc ', 'xyz', '()', '.5'])
            elif k == 1:
                t += '%%'
            else:
                s = '%'
                if keyed:
                    key = vg.gen_text(cs, 5, ['ab', '()', ' -', '1', '%'])
                    # keep parentheses balanced inside the key most of the time
                    if key.count('(') != key.count(')') and cs.bool(200):
                        key = key.replace('(', '').replace(')', '')
                    s += '(' + key + ')'
                for _ in range(cs.small(4)):
                    s += cs.pick('#0- +')
                    if cs.bool(8):
                        # any other character among the flags is an unsupported format character (blanks of every kind included)
                        s += cs.pick('\t\n\r\x0b\x0c\xa0') if cs.bool() else (gen_unsupported_char(cs) if not bytes_mode else chr(0x80 + cs.choice(0x80)))
                w = cs.choice(8)
                if w < 3:
                    s += str(cs.pick([0, 1, 2, 3, 5, 8, 10, 12, 17, 25, 40]))
                elif w == 3 and not keyed:
                    s += '*'
                p = cs.choice(8)
                if p < 3:
                    s += '.' + str(cs.pick([0, 1, 2, 3, 5, 6, 10, 17, 20, 30]))
                elif p == 3:
                    s += '.'
                elif p == 4 and not keyed:
                    s += '.*'
                if cs.bool(24):
                    s += cs.pick('hlL')
                if cs.bool(12):
                    s += cs.pick(UNSUPPORTED) if cs.bool(170) or bytes_mode else gen_unsupported_char(cs)
                else:
                    s += cs.pick(BYTES_TYPES if bytes_mode else TEXT_TYPES)
                t += s
        m = cs.choice(12)
        if m == 0 and t:
            t = t[:cs.choice(len(t)) + 1]  # truncation
        elif m == 1 and t:
            i = cs.choice(len(t) + 1)
            t = t[:i] + cs.pick('%(.)*0 -#+lhd') + t[i:]
        elif m == 2 and t:
            i = cs.choice(len(t))
            t = t[:i] + t[i + 1:]
        if bytes_mode:
            t = ''.join(c for c in t if ord(c) < 256)
        for mm in re.finditer(r'\d+', t):
            if 3 < len(mm.group(0).lstrip('0')) < 20:
                ctx.count('gen_resource_limited')
                return None
        # arguments from the reference splitter's view of the template
        try:
            parts = ref_split(t, bytes_mode)
        except RefError:
            return {'template': t, 'bytes': bytes_mode, 'args': []}
        args = []
        for p in parts:
            if 'spec' in p:
                sp = p['spec']
                if sp['width'] == '*':
                    args.append({'t': 'int', 'v': str(cs.choice(30))})
                if sp['prec'] == '*':
                    args.append({'t': 'int', 'v': str(cs.choice(12))})
                args.append(gen_arg_for(cs, sp['type'], bytes_mode))
        case = {'template': t, 'bytes': bytes_mode, 'args': args}
        ex = self.region(case)
        if ex in open_ids('C19'):
            ctx.count('excluded[%s]' % ex)
            return None
        return case

    def nontrivial(self, case, ctx):
        try:
            parts = ref_split(case['template'], case['bytes'])
        except RefError:
            return len(case['template']) >= 3
        for p in parts:
            if 'spec' in p:
                sp = p['spec']
                if sp['key'] is not None or (bool(sp['flags']) + (sp['width'] is not None) + (sp['prec'] is not None)) >= 2:
                    return True
        return False

    def auto_args(self, parts, bytes_mode):
        import random
        out = []
        for p in parts:
            if 'spec' in p:
                sp = p['spec']
                if sp['width'] == '*':
                    out.append({'t': 'int', 'v': '7'})
                if sp['prec'] == '*':
                    out.append({'t': 'int', 'v': '3'})
                ty = sp['type']
                if ty in NUM_TYPES:
                    out.append({'t': 'int', 'v': '-1234'})
                elif ty in FLOAT_TYPES:
                    out.append({'t': 'float', 'v': bits(1234.5678)})
                elif ty == 'c':
                    out.append({'t': 'bytes', 'v': '41'} if bytes_mode else {'t': 'char', 'v': 'é'})
                elif bytes_mode:
                    out.append({'t': 'bytes', 'v': b'h\xffllo'.hex()})
                else:
                    out.append({'t': 'str', 'v': "hé'llo"})
        return out

    def check(self, case, ctx):
        if case.get('limits'):
            return self.check_limits(case, ctx)
        sut = ctx.sut('A')
        t, bm = case['template'], case['bytes']
        if bm and any(ord(c) > 255 for c in t):
            return None
        try:
            parts = ref_split(t, bm)
            ref_err = None
        except RefError as e:
            parts, ref_err = None, e
            if e.kind == 'ModeSpecific':
                ctx.count('skipped_text_mode_b')
                return None
        extra = self.check_entry_points(case, t, bm, parts, ctx)
        if extra:
            return extra
        args = case['args']
        if args == 'auto':
            args = self.auto_args(parts, bm) if parts is not None else []
        # ---- Python's verdict
        py_args = []
        keyed = parts is not None and any('spec' in p and p['spec']['key'] is not None for p in parts)
        if parts is not None:
            it = iter(args)
            mapping = {}
            try:
                for p in parts:
                    if 'spec' in p:
                        sp = p['spec']
                        if sp['width'] == '*':
                            py_args.append(int(next(it)['v']))
                        if sp['prec'] == '*':
                            py_args.append(int(next(it)['v']))
                        a = next(it)
                        v = py_value(a, sp['type'])
                        if sp['type'] == 'c' and bm:
                            v = v[0]
                        if sp['key'] is not None:
                            k = sp['key'].encode('latin-1') if bm else sp['key']
                            if k in mapping and (type(mapping[k]) is not type(v) or repr(mapping[k]) != repr(v)):   # (-0.0 == 0, True == 1)
                                ctx.count('skipped_duplicate_key')
                                return None
                            mapping[k] = v
                        py_args.append(v)
            except StopIteration:
                return Failure('harness_args_mismatch', case=case)
            if keyed and not all('spec' not in p or p['spec']['key'] is not None for p in parts):
                ctx.count('skipped_mixed_keyed_positional')
                return None
        tmpl = t.encode('latin-1') if bm else t
        try:
            if parts is None:
                # malformed per the reference: give Python plenty of arguments so that only ValueError can arise
                expected = ('ok', tmpl % ((1,) * 8))
            elif keyed:
                expected = ('ok', tmpl % mapping)
            else:
                expected = ('ok', tmpl % tuple(py_args))
        except ValueError as e:
            expected = ('err', str(e))
        except (TypeError, OverflowError, KeyError, MemoryError) as e:
            ctx.count('skipped_python_%s' % type(e).__name__)
            return None
        # ---- the library
        sargs = []
        if parts is not None:
            it = iter(args)
            for p in parts:
                if 'spec' in p:
                    sp = p['spec']
                    if sp['width'] == '*':
                        sargs.append(next(it))
                    if sp['prec'] == '*':
                        sargs.append(next(it))
                    sargs.append(sut_arg(next(it), sp['type'], bm))
        if bm:
            r = sut.call('cformat_bytes', template=tmpl.hex(), args=sargs)
        else:
            r = sut.call('cformat_str', template=t, args=sargs)
        if 'panic' in r or 'crash' in r:
            return Failure('panic', case=case, reply=r, python=expected)
        ctx.count(('bytes_' if bm else 'text_') + expected[0])
        if expected[0] == 'err':
            msg = expected[1]
            if 'err' not in r:
                return Failure('accepts_invalid', case=case, python=msg, got=r)
            m = re.search(r"unsupported format character '(.*)' \(0x([0-9a-f]+)\) at index (\d+)", msg, re.S)
            if m:
                if r['err'] != 'UnsupportedFormatChar' or r['index'] != int(m.group(3)) or ord(r['char']) != int(m.group(2), 16):
                    return Failure('wrong_error', case=case, python=msg, got=r)
            elif 'incomplete format key' in msg:
                if r['err'] != 'UnmatchedKeyParentheses':
                    return Failure('wrong_error', case=case, python=msg, got=r)
            elif 'incomplete format' in msg:
                if r['err'] != 'IncompleteFormat':
                    return Failure('wrong_error', case=case, python=msg, got=r)
            elif 'too big' in msg:
                if r['err'] != 'IntTooBig':
                    return Failure('wrong_error', case=case, python=msg, got=r)
            return None
        if 'err' in r:
            return Failure('rejects_valid', case=case, python=repr(expected[1])[:200], got=r)
        # split equals the reference splitter's
        got_parts = [({'lit': (bytes.fromhex(p['lit']).decode('latin-1') if bm else p['lit'])} if 'lit' in p else {'spec': dict(p['spec'], flags=''.join(sorted(p['spec']['flags']))), 'at': p['at']}) for p in r['parts']]
        if got_parts != parts:
            return Failure('split_differs', case=case, got=got_parts, expected=parts)
        if 'format_error' in r:
            return Failure('harness_format_error', case=case, got=r['format_error'])
        got = bytes.fromhex(r['out_hex']) if bm else r['out']
        if got != expected[1]:
            return Failure('wrong_text', case=case, got=repr(got), expected=repr(expected[1]))
        return None

    def check_entry_points(self, case, t, bm, parts, ctx):
        """the other public ways into the same code, against the template splitter itself and the reference split:
        `check_specifiers` (how many specifiers, all keyed / none keyed / mixed) for every well-formed template - the mixed ones,
        which the formatting comparison has to skip, included - and `CFormatSpec::from_str` (one specifier from the start of a
        text; text mode only), which must read each specifier of the template exactly as the splitter did"""
        sut = ctx.sut('A')
        r = sut.call('cformat_bytes', template=t.encode('latin-1').hex()) if bm else sut.call('cformat_str', template=t)
        if 'panic' in r or 'crash' in r:
            return Failure('panic', case=case, reply=r)
        if parts is not None and 'parts' in r:
            specs = [p for p in parts if 'spec' in p]
            keyed = [p['spec']['key'] is not None for p in specs]
            want = None if any(k != keyed[0] for k in keyed) else [len(specs), bool(keyed and keyed[0])]
            ctx.count('check_specifiers_' + ('mixed' if want is None else 'keyed' if want[1] else 'positional' if want[0] else 'no_specifier'))
            if r.get('check_specifiers') != want:
                return Failure('check_specifiers_wrong', case=case, got=r.get('check_specifiers'), expected=want)
            if want is None:
                # (skipped by the formatting comparison below: the split is still Python's)
                got_parts = [({'lit': (bytes.fromhex(p['lit']).decode('latin-1') if bm else p['lit'])} if 'lit' in p else
                              {'spec': dict(p['spec'], flags=''.join(sorted(p['spec']['flags']))), 'at': p['at']}) for p in r['parts']]
                if got_parts != parts:
                    return Failure('split_differs', case=case, got=got_parts, expected=parts)
        if bm:
            return None
        if not t.startswith('%'):
            ctx.count('spec_from_str_without_percent')
            s = sut.call('cformat_spec', spec=t)
            if s.get('err') != 'MissingModuloSign' or s.get('index') != 1:
                return Failure('spec_from_str_accepts_text_without_percent', case=case, got=s)
        if 'parts' in r:
            for p in [q for q in r['parts'] if 'spec' in q][:3]:
                ctx.count('spec_from_str_vs_splitter')
                s = sut.call('cformat_spec', spec=t[p['at']:])
                if s.get('spec') != p['spec']:
                    return Failure('spec_from_str_differs_from_splitter', case=case, at=p['at'], got=s, splitter=p['spec'])
        elif 'err' in r and t.count('%') == 1:
            at = t.index('%')
            ctx.count('spec_from_str_vs_splitter_error')
            s = sut.call('cformat_spec', spec=t[at:])
            if s.get('err') != r['err'] or (r['err'] == 'UnsupportedFormatChar' and (s.get('index') != r['index'] - at or s.get('char') != r.get('char'))):
                return Failure('spec_from_str_error_differs_from_splitter', case=case, at=at, got=s, splitter=r)
        return None

    def region(self, case):
        return None

    def known(self, case, f, ctx):
        r = self.region(case)
        if r in open_ids('C19') and f.signature != 'panic':
            return r
        return None


PROP = C19()
