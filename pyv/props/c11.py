"""C11 — unparsing an expression and parsing it again gives the same expression (DESIGN.md 6/C11)."""
import re
from ..engine import Failure
from ..known import open_ids
from ..choice import ChoiceStream
from ..gen.pygen import PyGen
from ..gen.layout import render, Layout
from ..gen import literals
from .. import ref
from .c01 import ProgramProperty, norm_path, trim

CHILDREN = ['a or b', 'a and b', 'not a', 'a < b', 'a is not b', 'a not in b', 'a < b < c', 'a | b', 'a ^ b', 'a & b', 'a << b', 'a >> b', 'a + b', 'a - b', 'a * b', 'a / b', 'a // b',
            'a % b', 'a @ b', '-a', '+a', '~a', 'a ** b', 'await a', 'lambda: a', 'lambda x, *y, z=1, **k: a', 'a if b else c', 'a := b', 'yield a', 'yield', 'yield from a', 'a, b', 'a,',
            '()', 'a', '1', '-1', '1.5', '1j', '-1j', "'s'", "b's'", 'a.b', 'a[b]', 'a[b:c]', 'a(b)', 'a(*b, c=d, **e)', '[a]', '[]', '{a}', '{a: b}', '{}', '{**a}', '[a for a in b]',
            '(a for a in b)', '{a for a in b}', '{a: b for a in c}', '[a async for a in b if c if d for e in f]', 'f"{a}"', 'f"{a!r:>{b}}"', '...', 'None', 'True', '1 .real', '1.0.real',
            "'a' 'b'", '1e100', '1e-7', '10 ** -1', '-a ** -b', 'not not a', '--a', 'a if b else c if d else e', 'lambda: lambda: a', 'a, *b', '*a, b']
PARENTS = ['H or x', 'x or H', 'H and x', 'x and H', 'not H', 'H < x', 'x < H', 'x < H < y', 'x in H', 'H is x', 'H | x', 'x | H', 'H ^ x', 'x ^ H', 'H & x', 'x & H', 'H << x', 'x << H',
           'H >> x', 'x >> H', 'H + x', 'x + H', 'H - x', 'x - H', 'H * x', 'x * H', 'H / x', 'x / H', 'H // x', 'x // H', 'H % x', 'x % H', 'H @ x', 'x @ H', '-H', '+H', '~H', 'H ** x', 'x ** H',
           '-H ** x', 'await H', 'lambda: H', 'lambda x=H: x', 'lambda *, x=H: x', 'H if x else y', 'x if H else y', 'x if y else H', '(y := H)', 'H.attr', 'H[x]', 'x[H]', 'x[H:y]',
           'x[y:H]', 'x[a:b:H]', 'x[H, y]', 'x[y, H:z]', 'H(x)', 'x(H)', 'x(y, H)', 'x(k=H)', 'x(*H)', 'x(**H)', 'x(H for a in b)', '[H]', '[x, H]', '(H, x)', '(H,)', '(x, H)', '{H}',
           '{H: x}', '{x: H}', '{**H}', '[H for a in b]', '[x for a in H]', '[x for a in b if H]', '[x for a in b for c in H]', '{H: x for a in b}', '{x: H for a in b}', '{H for a in b}',
           '(H for a in b)', 'f"{H}"', 'f"{H!r}"', 'f"{x:{H}}"', '(yield H)', '(yield from H)', '[*H]', '(*H, x)', 'x[*H,]', 'H', 'H if H else H', 'H ** H', 'H + H', 'H, H']


def erase_ctx(x):
    if isinstance(x, dict):
        return {k: erase_ctx(v) for k, v in x.items() if k not in ('range', 'ctx')}
    if isinstance(x, list):
        return [erase_ctx(v) for v in x]
    return x


def fstring_with_nested_string(tree):
    """does some JoinedStr hold, inside a replacement field, a str / bytes constant or another f-string?"""
    found = [False]

    def has_string(x):
        if isinstance(x, dict):
            if x.get('_') == 'JoinedStr' or (x.get('_') == 'Constant' and x['value']['c'] in ('str', 'bytes')):
                return True
            return any(has_string(v) for v in x.values())
        if isinstance(x, list):
            return any(has_string(v) for v in x)
        return False

    def walk(x):
        if isinstance(x, dict):
            if x.get('_') == 'FormattedValue' and has_string(x['value']):
                found[0] = True
            for v in x.values():
                walk(v)
        elif isinstance(x, list):
            for v in x:
                walk(v)
    walk(tree)
    return found[0]


class C11(ProgramProperty):
    fuzz_target = 'fuzz_unparse'

    def fuzz_seeds(self):
        from ..fuzz import program_seeds
        return program_seeds(extra=[p.replace('H', '(' + c + ')') for p, c in zip(PARENTS, CHILDREN)] + CHILDREN)

    id = 'C11'
    technique = ('round-trip property testing: exhaustive (parent, child, side) operator-template sweep on every run + Hypothesis-generated expressions and '
                 'boundary constants; oracle parse(unparse(T)) == T, unparse fixed point, CPython agrees on the rendered text')
    level_text = ('every ordered pair of ~80 expression classes x ~95 parent slots (about 7,000 sources) on each run, then ~60k (quick) / 1M (thorough) generated '
                  'expressions, constants (boundary floats, huge ints, quotes / controls / non-ASCII in strings and bytes, complex, Ellipsis) and f-strings: the '
                  'rendering must parse back to the same tree up to ranges and load/store tags, render to the same text again, and mean the same to CPython')
    level_note = 'the parser itself is the inverse (its correctness is C01\'s subject); CPython 3.11 is used as a cross-check of the rendered text'
    rule = ('template sweep + PyGen expressions (node budget 4..40) + constant generators; non-trivial = tree depth >= 3 with >= 2 operator nodes, or a non-trivial '
            'constant / f-string; distinct by case hash')

    def budget(self, tier):
        return 60000 if tier == 'quick' else 1000000

    def avoid(self):
        return {'C01-F1', 'C01-F4', 'C01-F24'}

    def open(self):
        return open_ids('C01') | open_ids('C11')

    def explicit_cases(self, ctx):
        for p in PARENTS:
            for c in CHILDREN:
                yield {'src': p.replace('H', '(' + c + ')')}
        for s in ['1e999', '-1e999', '1e999j', '1e16', '1e15', '123456789012345678.0', '1e-5', '0.0001', '5e-324', '1.7976931348623157e308', '0.1', '1e22', '2.5e-5', '100.0', '1e100',
                  '9' * 60, '0xffffffffffffffffffffffffffffff', '-0.0', '0j', '1.5j', '(1+2j)', '1e16j', '1e-7j', "'a\\'b'", '\'a"b\'', '\'a\\\'b"c\'', "'\\n\\t\\x00\\x7f\\\\'", "'é中\U0001f600'",
                  "'\\xa0\\xad\\u2028'", "b'\\x00\\xff\\'\"'", "u'a'", "''", "b''", '...', 'None', 'True', 'False', '1 .real', '1.5.real', '1j.imag', "'%s' % a", '(1).real', '-1 .real',
                  '(-1) ** 2', '-1 ** 2', '(-1).real', '2 ** -1', 'a ** -b ** c', '(a ** b) ** c', 'a ** (b ** c)', 'not (a, b)', '(not a) + b', '-(a + b)', '(-a) + b', '(await a) ** b',
                  'await (a ** b)', '(a if b else c) if d else e', 'a if (b if c else d) else e', 'lambda: (yield)', 'lambda: (a, b)', 'lambda: (a := b)', '[(a, b) for a, b in c]',
                  '[a for a in (b, c)]', '[a for a in (lambda: b)]', '[a for a in b if (c if d else e)]', '{**a, b: c}', 'a[b, c]', 'a[(b, c)]', 'a[b:c, d]', 'a[:]', 'a[::]', 'a[b::c]',
                  'a[*b]', 'a[*b, c]', 'f(a)(b)[c].d', 'f(*a, *b, c=d, **e, **g)', 'f(a for a in b)', 'f((a for a in b), c)', "f'{a}{b!r}{c:>{d}}{e=}'", "f'{{}}'", "f'{a:{b}{c}}'",
                  "f'{\"x\"}'", 'f"{\'x\'}"', "f'a\\nb{c}'", "f'{a!s:}'", "'a' f'{b}' 'c'", "f'{a}' \"'\" '\"'", "f\"{x}\\\"\" f\"{'a'}\"", "f'{(lambda: 1)()}'", "f'{a or b}'", "f'{a if b else c}'",
                  "f'{(a, b)}'", "f'{a,}'", "f'{{{a}}}'", "f'{a:\\n}'", "f'{a:\\\\}'", "f'{a:>{b}\\x41}'", "rf'{a:\\n}'", "f'{a:é}'", "f'{a:{b=}}'", "f'{a!r:>{b=}0}'"]:
            yield {'src': s}

    def gen(self, cs, ctx):
        k = cs.weighted([170, 50, 36, 24])
        if k == 3:
            # renderings that begin with a soft keyword used as a name, with colons of their own (lambdas bare and as defaults of
            # lambdas, dict displays, slices): parsing the rendering back must not take the name for a keyword
            from ..gen.pygen import SOFT, tk, T
            g = PyGen(cs, budget=4 + cs.choice(12), py312=False, avoid=self.avoid() & self.open())
            head = T(cs.pick(list(SOFT)), 'n')
            lam = g.lambda_()
            if cs.bool(128):
                lam = [tk('lambda'), T('a', 'n'), tk('=')] + ([tk('(')] if cs.bool() else []) + g.lambda_()
                if lam[3].s == '(':
                    lam += [tk(')')]
                lam += [tk(':')] + g.sub('or')
            form = cs.choice(5)
            if form == 0:
                toks = [head, tk('if')] + g.sub('or') + [tk('else')] + lam
            elif form == 1:
                toks = [head, tk(',')] + lam
            elif form == 2:
                toks = [head, tk('or')] + g.colon_rich()
            elif form == 3:
                toks = [head, tk('['), tk(':'), tk(']'), tk(',')] + lam
            else:
                toks = [head, tk('(')] + lam + [tk(')'), tk('if')] + g.sub('or') + [tk('else')] + g.colon_rich()
            return {'src': render([('line', toks)]).text.strip('\n').replace('µ', 'mu')}
        if k == 0:
            g = PyGen(cs, budget=4 + cs.choice(36 if ctx.tier == 'quick' else 120), py312=False, avoid=self.avoid() & self.open())
            toks = g.expr('test')
            src = render([('line', toks)]).text.strip('\n').replace('µ', 'mu')
        elif k == 1:
            from .c17 import gen_tie_string
            from .. import valuegen as vg
            j = cs.choice(6)
            if j == 0:
                src = repr(vg.gen_double(cs))
                src = {'inf': '1e999', '-inf': '-1e999', 'nan': '(1e999 - 1e999)'}.get(src, src)
            elif j == 1:
                src = str(vg.gen_int(cs))
            elif j == 2 and cs.bool(128):
                # the characters written raw in the source (only quote, backslash and line ends escaped): whatever the
                # unparser chooses to escape must read back as the same character
                t = vg.gen_text(cs, 10)
                src = "'" + ''.join('\\' + c if c in "'\\" else ('\\x%02x' % ord(c) if c in '\r\n\x00' else c) for c in t) + "'"
            elif j == 2:
                src = repr(vg.gen_text(cs, 10))
            elif j == 3:
                src = repr(bytes(cs.byte() for _ in range(cs.choice(10))))
            elif j == 4:
                src = literals.gen_imag(cs)
            else:
                src = literals.gen_number(cs)
        else:
            g = PyGen(cs, budget=4 + cs.choice(16), py312=False, avoid=self.avoid() & self.open())
            src = ' '.join(t.s.replace(literals.NL, '\n') for t in literals.gen_string_concat(cs, g, force_f=True)).replace('µ', 'mu')
        return {'src': src}

    def nontrivial(self, case, ctx):
        s = case['src']
        return len(re.findall(r'\b(or|and|not|if|lambda|await|in|is)\b|[-+*/%@&|^~<>]|\*\*', s)) >= 2 or bool(re.search(r'''['"]|\d[eE.]|\d{12}''', s))

    def sample_repr(self, case):
        return {'src': case['src'][:200]}

    def check(self, case, ctx):
        src = case['src']
        r0 = ref.ref_parse(src, 'eval')
        if r0[0] != 'ok':
            ctx.count('gen_invalid')
            return None
        sut = ctx.sut('A')
        r = sut.call('unparse', src=src)
        if 'tree' not in r:
            if 'err' in r:
                ctx.count('not_parsed_(C01)')
                return None
            return Failure('panic_or_crash', src=src, reply=str(r)[:300])
        u = r['text']
        ctx.count('rendered')
        nested = fstring_with_nested_string(r['tree'])
        if 'reparse' not in r:
            return Failure('rendering_does_not_parse', src=src, rendered=u, error=trim(r.get('reparse_err')), nested_string_in_field=nested)
        d = ref.first_diff(erase_ctx(r['tree']), erase_ctx(r['reparse']))
        if d:
            return Failure('roundtrip_tree_differs:' + norm_path(d[0]), src=src, rendered=u, path=d[0], original=trim(d[1]), reparsed=trim(d[2]), nested_string_in_field=nested)
        if r['text2'] != u:
            return Failure('rendering_not_a_fixed_point', src=src, first=u, second=r['text2'])
        # cross-check: CPython reads the rendering as the tree it gives the original source (only where this
        # parser agrees with CPython on the original: disagreements there are C01's business)
        if ref.first_diff(ref.erase(r0[1]['body']), ref.erase(r['tree'])) is None:
            ru = ref.ref_parse(u, 'eval')
            if ru[0] != 'ok':
                return Failure('rendering_rejected_by_cpython', src=src, rendered=u, error=ru[1], nested_string_in_field=nested)
            d = ref.first_diff(erase_ctx(r0[1]), erase_ctx(ru[1]))
            if d:
                return Failure('rendering_means_something_else_to_cpython:' + norm_path(d[0]), src=src, rendered=u, path=d[0], original=trim(d[1]), rendered_tree=trim(d[2]))
        else:
            ctx.count('original_tree_differs_from_cpython_(C01)')
        return None

    def known(self, case, f, ctx):
        ids = open_ids('C11')
        sig, d = f.signature, f.detail
        if 'C11-F1' in ids and d.get('nested_string_in_field') and (sig in ('rendering_does_not_parse', 'rendering_rejected_by_cpython') or
                                                                     sig.endswith(('str.v/len', 'bytes.v', 'str.v')) or 'str.v' in sig):
            return 'C11-F1'
        if 'C11-F3' in ids and sig.startswith(('roundtrip_tree_differs', 'rendering_means_something_else_to_cpython')) and 'FormattedValue.format_spec' in d.get('path', '') \
                and 'str.v' in d.get('path', '') and self.spec_has_escape(d.get('src', '')):
            return 'C11-F3'
        if 'C11-F4' in ids and sig.startswith('roundtrip_tree_differs') and 'FormattedValue.format_spec' in d.get('path', '') and \
                re.search(r':[^}]*\{[^}]*=\s*[!:}]', d.get('src', '')):
            return 'C11-F4'
        if 'C11-F2' in ids and sig.endswith('Constant.kind') and 'JoinedStr' in d.get('path', ''):
            return 'C11-F2'
        return None


    @staticmethod
    def spec_has_escape(src):
        """the finding's region: an f-string with a backslash somewhere (the failure path already says that the
        differing text is a Constant piece of a format spec)"""
        return '\\' in src and bool(re.search(r'[fF]', src))


PROP = C11()
