"""C14 — converting between the two parameter-list forms keeps every parameter (DESIGN.md 6/C14)."""
import itertools
from ..engine import Property, Failure
from ..known import open_ids


def render(shape):
    """shape: dict(posonly=[(ann, has_default)], pos=[...], vararg=None|ann_flag, kwonly=[...], kwarg=None|ann_flag, form)"""
    parts = []
    idx = [0]
    lam = shape['form'] == 'lambda'

    def one(prefix, ann, dflt):
        i = idx[0]
        idx[0] += 1
        s = '%s%d' % (prefix, i)
        if ann and not lam:
            s += ': A%d' % i
        if dflt:
            s += (' = ' if ann and not lam else '=') + default_text(shape, i)
        return s
    for ann, d in shape['posonly']:
        parts.append(one('p', ann, d))
    if shape['posonly']:
        parts.append('/')
    for ann, d in shape['pos']:
        parts.append(one('a', ann, d))
    if shape['vararg'] is not None:
        parts.append('*' + one('v', shape['vararg'], False))
    elif shape['kwonly']:
        parts.append('*')
    for ann, d in shape['kwonly']:
        parts.append(one('k', ann, d))
    if shape['kwarg'] is not None:
        parts.append('**' + one('w', shape['kwarg'], False))
    sig = ', '.join(parts)
    if lam:
        return 'lambda %s: 0' % sig
    return '%sdef f(%s): pass' % ('async ' if shape['form'] == 'async' else '', sig)


DEFAULTS = ['None', '0', "'s'", 'x', '()', '(1, 2)', 'a.b', '-1', 'None', '...', 'True', '[None]', 'None', 'x if y else None', 'f(None)', '1.5', "b''", 'not None']


def default_text(shape, i):
    """the default expression of parameter number i: distinct integers (dv 0), the literal None everywhere (dv 1), a mixture
    with repeated and None values (dv 2), or explicitly listed texts (dvals)"""
    if shape.get('dvals'):
        return shape['dvals'][i % len(shape['dvals'])]
    dv = shape.get('dv', 0)
    if dv == 1:
        return 'None'
    if dv == 2:
        return DEFAULTS[(i * 5 + 1) % len(DEFAULTS)]
    return str(100 + i)


def fingerprint(x):
    if isinstance(x, dict):
        return {k: fingerprint(v) for k, v in x.items() if k != 'range'}
    if isinstance(x, list):
        return [fingerprint(v) for v in x]
    return x


def fp(x):
    import json
    return json.dumps(fingerprint(x), sort_keys=True)


def P(arg):
    """(name, annotation id, default value) of an `arg` dump / arg_with_default dump"""
    if arg is None:
        return None
    if arg['_'] == 'arg_with_default':
        n, a, _ = P(arg['def'])
        d = arg['default']
        return (n, a, fp(d) if d else None)
    ann = arg['annotation']
    return (arg['arg'], ann['id'] if ann else None, None)


def E(expr):
    return fp(expr)


class C14(Property):
    fuzz_target = 'fuzz_args'

    def fuzz_seeds(self):
        from ..fuzz import program_seeds
        return program_seeds()

    id = 'C14'
    configs = ('B',)
    bytes_per_case = 400
    technique = 'model-based property testing: exhaustive small signature shapes + Hypothesis random shapes, round-trip against a model of the two forms'
    level_text = ('every signature shape with <= 2 parameters per kind (all default-suffix lengths, every subset of keyword-only defaults, with and without '
                  '*args/**kwargs, annotated or not, def / async def / lambda) on each run plus random shapes with up to 5 per kind; the Python-style form must '
                  'match a model written from its documentation and the conversion back must keep every parameter with its own default')
    level_note = 'trusts this parser to produce the per-parameter form from source (checked separately by C01) and the Python model of the documented forms'
    rule = ('signatures generated as counts x default subsets x annotations x form; parsed from source by the default-feature build; non-trivial = >= 1 default '
            'and >= 2 parameters of one kind; distinct by case hash; classes counted: kw-only default before non-default, all/none/some defaults, pos-only with defaults')

    def budget(self, tier):
        return 40000 if tier == 'quick' else 600000

    def explicit_cases(self, ctx):
        mx = 2 if ctx.tier == 'quick' else 3
        for npo in range(mx + 1):
            for npos in range(mx + 1):
                for nd in range(npo + npos + 1):
                    flags = [False] * (npo + npos - nd) + [True] * nd
                    for nkw in range(mx + 1):
                        for kwd in itertools.product([False, True], repeat=nkw):
                            for va in (None, False):
                                for kw in (None, False):
                                    for ann in (False, True):
                                        for form in ('def', 'lambda') if not ann else ('def', 'async'):
                                            for dv in ((0, 1, 2) if (nd or any(kwd)) else (0,)):
                                                yield {'posonly': [[ann, f] for f in flags[:npo]], 'pos': [[ann, f] for f in flags[npo:]],
                                                       'vararg': None if va is None else ann, 'kwonly': [[ann, d] for d in kwd],
                                                       'kwarg': None if kw is None else ann, 'form': form, 'dv': dv}

    def gen(self, cs, ctx):
        npo, npos, nkw = cs.choice(6), cs.choice(6), cs.choice(6)
        if cs.bool(16):
            # long parameter lists, at the sizes where sorting and bit-set implementations change behaviour
            big = cs.pick([17, 21, 31, 32, 33, 34, 40, 63, 64, 65, 66, 100, 129])
            which = cs.choice(3)
            npo, npos, nkw = (big if which == 0 else npo), (big if which == 1 else npos), (big if which == 2 else nkw)
        nd = cs.choice(npo + npos + 1)
        flags = [False] * (npo + npos - nd) + [True] * nd
        form = cs.pick(['def', 'def', 'async', 'lambda'])
        return {'posonly': [[cs.bool(), f] for f in flags[:npo]], 'pos': [[cs.bool(), f] for f in flags[npo:]],
                'vararg': cs.pick([None, False, True]), 'kwonly': [[cs.bool(), cs.bool()] for _ in range(nkw)],
                'kwarg': cs.pick([None, False, True]), 'form': form,
                'dvals': [cs.pick(DEFAULTS) if cs.bool(170) else str(100 + j) for j in range(1 + cs.choice(8))] if cs.bool(170) else None}

    def nontrivial(self, case, ctx):
        nd = sum(d for _, d in case['posonly'] + case['pos'] + case['kwonly'])
        return nd >= 1 and (len(case['posonly']) >= 2 or len(case['pos']) >= 2 or len(case['kwonly']) >= 2)

    def sample_repr(self, case):
        return render(case)

    def check(self, case, ctx):
        sut = ctx.sut('B')
        src = render(case)
        r = sut.call('args_roundtrip', src=src)
        if 'orig' not in r:
            return Failure('parse_or_crash', src=src, reply=r)
        kw = case['kwonly']
        if kw:
            ds = [d for _, d in kw]
            ctx.count('kwonly_all_defaults' if all(ds) else 'kwonly_no_defaults' if not any(ds) else 'kwonly_some_defaults')
            if any(ds[i] and not ds[j] for i in range(len(ds)) for j in range(i + 1, len(ds))):
                ctx.count('kwonly_default_before_non_default')
        if any(d for _, d in case['posonly']):
            ctx.count('posonly_with_defaults')
        o = r['orig']
        posonly = [P(a) for a in o['posonlyargs']]
        pos = [P(a) for a in o['args']]
        kwonly = [P(a) for a in o['kwonlyargs']]
        va, kwa = P(o['vararg']), P(o['kwarg'])
        # the parsed per-parameter form must be the signature that was written (sanity of the starting point)
        if ([bool(p[2]) for p in posonly] != [d for _, d in case['posonly']] or [bool(p[2]) for p in pos] != [d for _, d in case['pos']]
                or [bool(p[2]) for p in kwonly] != [d for _, d in case['kwonly']]):
            return Failure('parsed_signature_unexpected', src=src, orig=o)
        exp_py = {
            'posonlyargs': [(n, a, None) for n, a, _ in posonly],
            'args': [(n, a, None) for n, a, _ in pos],
            'defaults': [d for _, _, d in posonly + pos if d is not None],
            'vararg': va, 'kwarg': kwa,
            'kwonlyargs': [(n, a, None) for n, a, d in kwonly if d is None] + [(n, a, None) for n, a, d in kwonly if d is not None],
            'kw_defaults': [d for _, _, d in kwonly if d is not None],
        }
        for name in ('py_to', 'py_into', 'py_from'):
            g = r[name]
            got = {'posonlyargs': [P(a) for a in g['posonlyargs']], 'args': [P(a) for a in g['args']], 'defaults': [E(e) for e in g['defaults']],
                   'vararg': P(g['vararg']), 'kwarg': P(g['kwarg']), 'kwonlyargs': [P(a) for a in g['kwonlyargs']],
                   'kw_defaults': [E(e) for e in g['kw_defaults']]}
            for k in exp_py:
                if got[k] != exp_py[k]:
                    return Failure('python_form_%s' % k, src=src, via=name, got=got[k], expected=exp_py[k])
        if not r['to_eq_into']:
            return Failure('to_and_into_differ', src=src)
        if [E(e) for e in r['defaults_iter']] != exp_py['defaults']:
            return Failure('defaults_iterator', src=src)
        if [P(a) for a in r['split_no_default']] != [(n, a, None) for n, a, d in kwonly if d is None] or \
                [(P(a)[0], E(d)) for a, d in r['split_with_default']] != [(n, d) for n, a, d in kwonly if d is not None]:
            return Failure('split_kwonlyargs', src=src)
        b = r['back']
        if b == 'panic':
            return Failure('into_arguments_panic', src=src)
        if [P(a) for a in b['posonlyargs']] != posonly or [P(a) for a in b['args']] != pos:
            return Failure('roundtrip_positional', src=src, got=[[P(a) for a in b['posonlyargs']], [P(a) for a in b['args']]], expected=[posonly, pos])
        if P(b['vararg']) != va or P(b['kwarg']) != kwa:
            return Failure('roundtrip_variadic', src=src)
        if sorted(P(a) for a in b['kwonlyargs']) != sorted(kwonly) or len(b['kwonlyargs']) != len(kwonly):
            return Failure('roundtrip_kwonly', src=src, got=[P(a) for a in b['kwonlyargs']], expected=kwonly)
        return None


PROP = C14()
