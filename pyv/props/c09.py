"""C09 — start offsets only translate positions; all entry points agree (DESIGN.md 6/C09)."""
import json, re
from ..engine import Property, Failure
from ..known import open_ids
from ..choice import ChoiceStream
from ..gen import invalid
from .. import ref
from .c01 import norm_path, trim
from .c03 import _only_comments

M32 = (1 << 32) - 1
STMT_KINDS = ['FunctionDef', 'AsyncFunctionDef', 'ClassDef', 'Return', 'Delete', 'Assign', 'TypeAlias', 'AugAssign', 'AnnAssign', 'For', 'AsyncFor', 'While', 'If',
              'With', 'AsyncWith', 'Match', 'Raise', 'Try', 'TryStar', 'Assert', 'Import', 'ImportFrom', 'Global', 'Nonlocal', 'Expr', 'Pass', 'Break', 'Continue']
EXPR_KINDS = ['BoolOp', 'NamedExpr', 'BinOp', 'UnaryOp', 'Lambda', 'IfExp', 'Dict', 'Set', 'ListComp', 'SetComp', 'DictComp', 'GeneratorExp', 'Await', 'Yield',
              'YieldFrom', 'Compare', 'Call', 'FormattedValue', 'JoinedStr', 'Constant', 'Attribute', 'Subscript', 'Starred', 'Name', 'List', 'Tuple', 'Slice']


def shift(x, k):
    if isinstance(x, dict):
        return {key: ([v[0] + k, v[1] + k] if key == 'range' and isinstance(v, list) else shift(v, k)) for key, v in x.items()}
    if isinstance(x, list):
        return [shift(v, k) for v in x]
    return x


def strip_hooks(r):
    return {k: v for k, v in r.items() if k not in ('ticks', 'reductions')}


def same_result(a, b, k=0):
    """a parsed at offset 0, b parsed at offset k"""
    a, b = strip_hooks(a), strip_hooks(b)
    if 'ok' in a and 'ok' in b:
        sa = shift(a['ok'], k)
        extra = None
        if isinstance(sa, dict) and sa.get('_') in ('Module', 'Interactive', 'Expression') and sa.get('range') and b['ok'].get('range') \
                and sa['range'] != b['ok']['range'] and k > 0 and b['ok']['range'][0] == 0:
            # reported on its own so that the rest of the tree is still compared
            extra = ('mod_start', (sa['range'], b['ok']['range']))
            sa = dict(sa, range=b['ok']['range'])
        d = ref.first_diff(sa, b['ok'])
        if d is not None:
            return ('tree', d)
        return extra
    if 'err' in a and 'err' in b:
        if a['err'] != b['err']:
            return ('error_kind', (a['err'], b['err']))
        if a['offset'] + k != b['offset']:
            return ('error_offset', (a['offset'], b['offset']))
        return None
    if 'panic' in a or 'panic' in b or 'crash' in a or 'crash' in b:
        return ('panic', (str(a)[:200], str(b)[:200]))
    return ('acceptance', ('ok' if 'ok' in a else a.get('err'), 'ok' if 'ok' in b else b.get('err')))


class C09(Property):
    fuzz_target = 'fuzz_offsets'

    def fuzz_seeds(self):
        # raw-mode inputs (first byte has bit 7 set): mode selector, offset selector, then the text
        from ..gen.invalid import FAMILIES
        texts = ['x = 1\n', 'def f(a, *b, c=1, **d):\n    return a\n', 'match x:\n    case [1, *r] if r: pass\n', 'class C(B, k=1):\n  @d\n  async def f(self): await x\n',
                 "f'{x!r:>{w}}' 'a' b'c'\n", 'try:\n  pass\nexcept* E as e:\n  raise\nfinally:\n  pass\n', 'with (a as b, c): pass\n', 'type X[T] = list[T]\n', 'x = [i for i in y if i]\n',
                 'lambda *a, k=1: (yield)\n', 'if x:\n\ty\nelse:\n\tz\n', '\ufeffx = "\\N{DIGIT ONE}"\r\n']
        texts += [FAMILIES[n](12) for n in sorted(FAMILIES)]
        out = []
        for i, t in enumerate(texts):
            out.append(bytes([0x80 | (i % 3), i % 6]) + t.encode('utf-8'))
        return out
    id = 'C09'
    configs = ('A', 'C')
    bytes_per_case = 768
    technique = 'metamorphic property testing (Hypothesis): shift-by-k relation and agreement relations between every public entry point on the same text'
    level_text = ('~60k (quick) / 400k (thorough) valid and invalid texts x start offsets up to 2^32-1-len: parse_starts_at == shift(parse), lex_starts_at likewise, '
                  'parse_tokens(lex) == parse, interactive body == module body, expression mode == the expression statement of module mode, Suite/Stmt/Expr/'
                  'Identifier/Constant and all 55 generated per-kind parsers return the corresponding part (or InvalidToken at the node start), deprecated '
                  'helpers == replacements, Mode::from_str accepts exactly exec/eval/single')
    level_note = 'relations between runs of the code itself: no external reference needed; all-nodes-with-ranges build so that every range takes part'
    rule = ('texts from PyGen (valid) and the invalid-input generators; non-trivial = k != 0 and >= 3 tokens, or a typed parser other than Suite; distinct by case hash')

    def budget(self, tier):
        return 60000 if tier == 'quick' else 400000

    def explicit_cases(self, ctx):
        for s in ['exec', 'eval', 'single', 'Exec', 'EXEC', ' exec', 'exec ', '', 'module', 'expression', 'interactive', 'func_type', 'e', 'evall', 'é', 'single\n']:
            yield {'k': 'mode', 's': s}
        samples = ['x', 'x = 1', '1 + 2', 'x\ny', '', '\n', 'pass', 'def f(): pass', 'f(a)', "'s'", '42', 'name', 'a.b', '(yield)', 'lambda: 0', 'x if y else z', '[a]', '{a}', '{a: b}',
                   '[a for a in b]', 'await x', 'not x', '-x', 'a < b', 'a and b', 'x[1:2]', '*a, b', 'f"{x}"', 'x := 1', '(x := 1)', 'import a', 'from a import b', 'global a',
                   'nonlocal a', 'return', 'raise', 'assert x', 'del x', 'x += 1', 'x: int', 'for a in b: pass', 'while a: pass', 'if a: pass', 'with a: pass', 'try: pass\nfinally: pass',
                   'try: pass\nexcept* E: pass', 'class C: pass', 'async def f(): pass', 'match x:\n case 1: pass', 'type X = int', 'break', 'continue', 'async for a in b: pass',
                   'async with a: pass', 'x y', '(', 'é = 1', "b'a'", '1j', '...', 'None', 'True', '{a for a in b}', '{a: b for a in c}', '(a for a in b)', 'yield from x', 'yield x']
        for t in samples:
            for k in (0, 3, 1000):
                yield {'k': 'text', 'text': t, 'off': k, 'typed': 'ALL'}

    def gen(self, cs, ctx):
        sub = ChoiceStream(cs.d[96:])
        k = cs.weighted([110, 30, 30, 30, 24, 16, 24, 12])
        if k == 0:
            text = invalid.base_program(sub, budget=20)
        elif k == 1:
            text = invalid.gen_token_mutant(cs, invalid.base_program(sub))
        elif k == 2:
            text = invalid.gen_char_mutant(cs, invalid.base_program(sub))
        elif k == 3:
            text = invalid.gen_soup(cs)
        elif k == 4:
            # a single expression / statement: feeds the typed parsers
            from ..gen.pygen import PyGen
            from ..gen.layout import render
            g = PyGen(sub, budget=4 + cs.choice(12))
            items = [('line', g.expr('test'))] if cs.bool() else g.stmt(0)
            text = render(items).text.strip('\n') if cs.bool() else render(items).text
        elif k == 7:
            # nothing but blanks, line ends, comments, joins and white space that is not Python's: every entry point sees the
            # same (empty or erroneous) text
            text = ''.join(cs.pick([' ', '\t', '\n', '\r\n', '\r', '\x0c', ' \t', '\t ', '#c', '# \u00e9\n', '\\\n', '\x0b', '\xa0', '\u2028', '\u3000', '\ufeff', '  \n', '\n  '])
                           for _ in range(cs.choice(6)))
        elif k == 6:
            # one expression that starts with a soft keyword used as a name: module / interactive mode decide by look-ahead
            # over the logical line whether it is a keyword, expression mode never asks - the entry points must still agree
            from ..gen.pygen import PyGen, SOFT, tk
            from ..gen.layout import render
            g = PyGen(sub, budget=6 + cs.choice(14))
            form = cs.choice(5)
            if form == 0:
                ts = g.expr('test')
            elif form == 1:
                ts = g.expr('or') + [tk(',')] + g.lambda_()
            elif form == 2:
                ts = g.expr('or') + [tk('if')] + g.expr('or') + [tk('else')] + g.lambda_()
            elif form == 3:
                ts = g.expr('or') + [tk(',')] + g.expr('test') + ([tk(',')] + g.lambda_() if cs.bool() else [])
            else:
                ts = g.lambda_()
            first = next((t for t in ts if t.k != 'M'), None)
            if first is not None and first.k == 'n' and first.pair is None:
                first.s = cs.pick(list(SOFT))
            text = render([('line', ts)]).text.strip('\n')
        else:
            text = invalid.gen_unicode(cs, 20)
        n = len(text.encode('utf-8'))
        off = cs.pick([1, 7, 400, 1 << 16, 1 << 31, M32 - n, 0])
        typed = cs.pick(['Suite', 'Stmt', 'Expr', 'Identifier', 'Constant', 'ModModule', 'ModExpression', 'ModInteractive'] +
                        ['Stmt' + x for x in STMT_KINDS] + ['Expr' + x for x in EXPR_KINDS])
        if k == 7:
            typed = cs.pick(['Suite', 'Suite', 'ModModule', 'Stmt', 'ModInteractive', 'Expr', 'ModExpression'])
        elif k in (4, 6) and cs.bool(110):
            # the typed parser of the kind the text really is (decided in check() from the module / expression trees): the
            # accepting side of the ~55 per-kind parsers, which a kind picked blindly meets once in ~70 texts
            typed = 'MATCH'
        return {'k': 'text', 'text': text, 'off': off, 'typed': typed}

    def nontrivial(self, case, ctx):
        if case['k'] == 'mode':
            return True
        return (case['off'] != 0 and len(invalid.tokens_of(case['text'])) >= 3) or case['typed'] not in ('Suite',)

    def sample_repr(self, case):
        c = dict(case)
        if 'text' in c:
            c['text'] = c['text'][:200]
        return c

    def check(self, case, ctx):
        # the entry points must agree in every feature configuration: a third of the texts also go through the full-lexer
        # build, where the typed parsers and the free functions filter comment / non-logical-newline tokens separately
        import zlib
        fs = self.check_cfg(case, ctx, 'A') or []
        if case['k'] == 'text' and (case.get('cfgC') or zlib.crc32(case['text'].encode('utf-8')) % 3 == 0):
            ctx.count('also_in_full_lexer_build')
            for f in self.check_cfg(case, ctx, 'C') or []:
                f.signature = f.signature + ':C'
                fs.append(f)
        return fs or None

    def check_cfg(self, case, ctx, cfg):
        sut = ctx.sut(cfg)
        if case['k'] == 'mode':
            r = sut.call('mode_from_str', s=case['s'])
            want = {'exec': 'Module', 'single': None, 'eval': 'Expression'}
            if case['s'] in want:
                if 'ok' not in r:
                    return Failure('mode_name_rejected', s=case['s'], reply=r)
                if want[case['s']] is not None and r['ok'] != want[case['s']]:
                    return Failure('mode_name_wrong_mode', s=case['s'], reply=r)
                return None
            if 'err' not in r:
                return Failure('mode_name_accepted', s=case['s'], reply=r)
            return None
        text, k = case['text'], case['off']
        n = len(text.encode('utf-8'))
        if k + n > M32:
            k = M32 - n
        fails = []

        def bad(sig, **d):
            fails.append(Failure(sig, text=text, off=k, **d))
        base = {}
        for mode in ('exec', 'single', 'eval'):
            rs = sut.batch([{'op': 'parse', 'src': text, 'mode': mode, 'k': 0, 'no_offset_api': True},
                            {'op': 'parse', 'src': text, 'mode': mode, 'k': k},
                            {'op': 'parse_tokens', 'src': text, 'mode': mode, 'k': k},
                            {'op': 'lex', 'src': text, 'mode': mode, 'k': 0},
                            {'op': 'lex', 'src': text, 'mode': mode, 'k': k}])
            p0, pk, ptk, l0, lk = rs
            base[mode] = p0
            d = same_result(p0, pk, k)
            if d:
                bad('shift_parse:%s:%s' % (mode, d[0]), diff=trim(d[1]))
            d = same_result(pk, ptk, 0)
            if d:
                bad('parse_tokens_vs_parse:%s:%s' % (mode, d[0]), diff=trim(d[1]))
            if 'toks' in l0 and 'toks' in lk:
                t0 = [[t[0], t[1] + k, t[2] + k] for t in l0['toks']]
                if t0 != lk['toks']:
                    bad('shift_lex:tokens:' + mode)
                e0, ek = l0['error'], lk['error']
                if (e0 is None) != (ek is None) or (e0 and (e0['err'] != ek['err'] or e0['offset'] + k != ek['offset'])):
                    bad('shift_lex:error:' + mode, e0=e0, ek=ek)
            else:
                bad('lex_panic:' + mode, l0=str(l0)[:200], lk=str(lk)[:200])
        ex, si, ev = base['exec'], base['single'], base['eval']
        # interactive body == module body
        if ('ok' in ex) != ('ok' in si):
            bad('interactive_vs_module:acceptance', module='ok' if 'ok' in ex else ex.get('err'), interactive='ok' if 'ok' in si else si.get('err'))
        elif 'ok' in ex:
            d = ref.first_diff(ex['ok']['body'], si['ok']['body'])
            if d:
                bad('interactive_vs_module:body', diff=trim(d))
        elif 'err' in ex and 'err' in si and (ex['err'] != si['err'] or ex['offset'] != si['offset']):
            bad('interactive_vs_module:error', module=[ex['err'], ex['offset']], interactive=[si['err'], si['offset']])
        # expression mode == the expression statement of module mode
        if 'ok' in ex and len(ex['ok']['body']) == 1 and ex['ok']['body'][0]['_'] == 'Expr' and \
                re.fullmatch(rb'([ \t\x0c\r\n]|#[^\r\n]*+|\\\r?\n|\\\r)*+', text.encode('utf-8')[ex['ok']['body'][0]['range'][1]:]):
            # (a trailing ';' belongs to the statement list, not to the expression: such texts are not one expression)
            v = ex['ok']['body'][0]['value']
            if v['_'] in ('Yield', 'YieldFrom', 'Starred') or (v['_'] == 'Tuple' and any(e['_'] == 'Starred' for e in v['elts'])):
                v = None  # statement-only forms (bare yield, starred tuples) are not expressions of expression mode
        else:
            v = None
        if v is not None:
            ctx.count('single_expression_statement')
            if 'ok' not in ev:
                bad('expression_vs_module:rejected', reply=str(strip_hooks(ev))[:300])
            else:
                d = ref.first_diff(ex['ok']['body'][0]['value'], ev['ok']['body'])
                if d:
                    bad('expression_vs_module:tree', diff=trim(d))
        elif 'ok' in ev and 'err' in ex:
            # the other direction: a text that is an expression has a tree as an expression statement of module mode
            # (leading blanks are trimmed in expression mode only, hence the restriction to texts that start in column 0)
            if not re.match(r'[ \t\x0c]', text.lstrip('\r\n\ufeff')[:1] or 'x') and not re.match(r'[ \t\x0c]', text[:1] or 'x'):
                ctx.count('expression_accepted_module_rejected')
                bad('expression_vs_module:module_rejects', module_error=str(strip_hooks(ex))[:200])
        # typed convenience parsers
        typed = case['typed']
        tys = (['Suite', 'Stmt', 'Expr', 'Identifier', 'Constant', 'ModModule', 'ModExpression', 'ModInteractive'] + ['Stmt' + x for x in STMT_KINDS] +
               ['Expr' + x for x in EXPR_KINDS]) if typed == 'ALL' else [typed]
        if typed == 'MATCH':
            tys = []
            if 'ok' in ex and len(ex['ok']['body']) == 1 and ex['ok']['body'][0]['_'] in STMT_KINDS:
                tys.append('Stmt' + ex['ok']['body'][0]['_'])
            if 'ok' in ev and ev['ok']['body']['_'] in EXPR_KINDS:
                tys.append('Expr' + ev['ok']['body']['_'])
            for ty in tys:
                ctx.count('typed_kind_matching_the_text')
            tys = tys or ['Stmt']
        for ty in tys:
            self.check_typed(ty, text, k, ex, ev, si, sut, bad, ctx)
        if typed in ('Suite', 'Expr', 'ALL'):
            for fn, want in (('parse_program', ex), ('parse_expression', ev)):
                r = strip_hooks(sut.call('deprecated', fn=fn, src=text))
                exp = self.part(want, 'body')
                if not self.eq(r, exp, 0):
                    bad('deprecated_' + fn, got=trim(r), expected=trim(exp))
            r = strip_hooks(sut.call('deprecated', fn='parse_expression_starts_at', src=text, k=k))
            exp = self.part(ev, 'body')
            if not self.eq(r, exp, k):
                only_off = 'err' in r and 'err' in exp and r['err'] == exp['err']
                bad('deprecated_parse_expression_starts_at' + (':error_offset' if only_off else ''), got=trim(r), expected=trim(exp))
        return fails or None

    @staticmethod
    def part(res, field):
        if 'ok' in res:
            return {'ok': res['ok'][field]}
        return strip_hooks(res)

    @staticmethod
    def eq(got, exp, k):
        """got (parsed at offset k) equals exp (offset 0) shifted by k"""
        if 'ok' in exp:
            return 'ok' in got and shift(exp['ok'], k) == got['ok']
        if 'err' in exp:
            return 'err' in got and got['err'] == exp['err'] and got['offset'] == exp['offset'] + k
        return False

    def check_typed(self, ty, text, k, ex, ev, si, sut, bad, ctx):
        rs = sut.batch([{'op': 'typed', 'ty': ty, 'src': text, 'how': 'parse'}, {'op': 'typed', 'ty': ty, 'src': text, 'k': k, 'how': 'starts_at'},
                        {'op': 'typed', 'ty': ty, 'src': text, 'k': k, 'how': 'tokens'}, {'op': 'typed', 'ty': ty, 'src': text, 'how': 'parse_without_path'}])
        got0, gotk, gott, gotw = [strip_hooks(r) for r in rs]
        ctx.count('typed_' + ('stmt_kind' if ty.startswith('Stmt') and ty != 'Stmt' else 'expr_kind' if ty.startswith('Expr') and ty != 'Expr' else ty))
        invalid_at = lambda node: {'err': {'t': 'InvalidToken'}, 'offset': node['range'][0]}
        if ty == 'ModModule':
            exp = ex
        elif ty == 'ModExpression':
            exp = ev
        elif ty == 'ModInteractive':
            exp = si
        elif ty == 'Suite':
            exp = self.part(ex, 'body')
        elif ty == 'Expr':
            exp = self.part(ev, 'body')
        elif ty in ('Identifier', 'Constant'):
            if 'ok' in ev:
                b = ev['ok']['body']
                if ty == 'Identifier':
                    exp = {'ok': b['id']} if b['_'] == 'Name' else invalid_at(b)
                else:
                    exp = {'ok': b['value']} if b['_'] == 'Constant' else invalid_at(b)
            else:
                exp = strip_hooks(ev)
        elif ty == 'Stmt' or ty.startswith('Stmt'):
            if 'ok' in ex:
                body = ex['ok']['body']
                if len(body) == 0:
                    exp = {'err': {'t': 'Eof'}, 'offset': 0, 'eof_offset_unshifted': True}
                elif len(body) > 1:
                    exp = invalid_at(body[1])
                elif ty == 'Stmt' or body[0]['_'] == ty[4:]:
                    exp = {'ok': body[0]}
                else:
                    exp = invalid_at(body[0])
            else:
                exp = strip_hooks(ex)
        else:  # Expr<Kind>
            if 'ok' in ev:
                b = ev['ok']['body']
                exp = {'ok': b} if b['_'] == ty[4:] else invalid_at(b)
            else:
                exp = strip_hooks(ev)
        exp = {kk: v for kk, v in exp.items() if kk in ('ok', 'err', 'offset', 'eof_offset_unshifted')}
        for name, got, kk in (('parse', got0, 0), ('parse_without_path', gotw, 0), ('parse_starts_at', gotk, k), ('parse_tokens', gott, k)):
            g = {x: v for x, v in got.items() if x in ('ok', 'err', 'offset')}
            if 'err' in g and isinstance(g['err'], dict):
                g['err'] = {x: v for x, v in g['err'].items()}
            e = dict(exp)
            unshifted = e.pop('eof_offset_unshifted', False)
            if 'err' in e:
                if 'err' not in g or g['err'].get('t') != e['err'].get('t') or (e['err'].get('t') == 'Lexical' and g['err'] != e['err']) or \
                        (e['err'].get('t') not in ('Lexical',) and {x: v for x, v in g['err'].items()} != e['err']):
                    bad('typed_%s:%s:error' % (self.family(ty), name), ty=ty, got=trim(g), expected=trim(e))
                elif g['offset'] != e['offset'] + kk:
                    bad('typed_%s:%s:error_offset%s' % (self.family(ty), name, ':empty_input_eof' if unshifted else ''), ty=ty, got=g['offset'], expected=e['offset'] + kk)
            else:
                want = shift(e['ok'], kk)
                if kk > 0 and 'ok' in g and isinstance(want, dict) and want.get('_') in ('Module', 'Interactive', 'Expression') and \
                        isinstance(g['ok'], dict) and g['ok'].get('range') and g['ok']['range'][0] == 0 and want.get('range') != g['ok']['range']:
                    bad('shift_parse:typed:mod_start', ty=ty, got=g['ok']['range'], expected=want.get('range'))
                    want = dict(want, range=g['ok']['range'])
                if 'ok' not in g or want != g['ok']:
                    bad('typed_%s:%s:value' % (self.family(ty), name), ty=ty, got=trim(g), expected=trim(want))

    @staticmethod
    def family(ty):
        if ty.startswith('Stmt') and ty != 'Stmt':
            return 'StmtKind'
        if ty.startswith('Expr') and ty != 'Expr':
            return 'ExprKind'
        return ty

    def known(self, case, f, ctx):
        ids = open_ids('C09')
        d = f.detail
        sig = f.signature[:-2] if f.signature.endswith(':C') else f.signature
        if 'C09-F1' in ids and sig.startswith('shift_parse:') and sig.endswith(':mod_start'):
            return 'C09-F1'
        if 'C09-F2' in ids and sig.endswith(':error_offset:empty_input_eof') and d.get('got') == 0:
            return 'C09-F2'
        if 'C09-F4' in ids and sig == 'expression_vs_module:module_rejects':
            from .c01 import top_level_colon
            m = re.match(r'[\s\ufeff]*(match|case)\b(.*)', d.get('text', ''), re.S)
            if m and top_level_colon(m.group(2)):
                return 'C09-F4'
        if 'C09-F5' in ids and sig == 'expression_vs_module:rejected' and "'Newline'" in str(d.get('reply')) and \
                re.search(r'(?:^|[\r\n])[ \t\x0c]*\\(?:\r\n|\r|\n)[ \t\x0c]*(?:\r|\n|#|$)', d.get('text', '')):
            return 'C09-F5'
        if 'C09-F3' in ids and d.get('off', 0) > 0 and (sig.endswith(':error_offset') or sig.startswith('shift_parse') and sig.endswith(':error_offset')) and _only_comments(d.get('text', '')):
            return 'C09-F3'
        return None


PROP = C09()
