"""C01 — every valid Python program parses to the reference AST (DESIGN.md 6/C01)."""
import re, os, json, glob
from ..engine import Property, Failure, VERIF
from ..known import open_ids
from ..choice import ChoiceStream
from ..gen.pygen import PyGen
from ..gen.layout import render, Layout
from .. import ref

NFKC_UNSTABLE = set('µ')  # characters whose NFKC form differs (CPython normalises identifiers, finding C01-F4)


def norm_path(p):
    p = re.sub(r'\[\d+\]', '[]', p)
    return '/'.join(p.split('/')[-2:])


class ProgramProperty(Property):
    """shared by the properties whose domain is 'generated valid programs'"""
    bytes_per_case = 1536
    configs = ('A',)
    node_budget = {'quick': 40, 'thorough': 300}

    def avoid(self):
        return set()

    def gen_program(self, cs, ctx, layout=True, modes=('exec', 'single', 'eval'), py312_p=40):
        """-> dict(text, mode, py312, feats) or None; text is gated by the reference parser in check()"""
        tier_budget = self.node_budget[ctx.tier]
        budget = 8 + cs.choice(tier_budget)
        py312 = cs.bool(py312_p)
        mode = cs.pick(['exec', 'exec', 'exec', 'single', 'eval']) if len(modes) == 3 else modes[0]
        counters = {}
        g = PyGen(cs, budget=budget, py312=py312, avoid=self.avoid() & self.open(), counters=counters)
        if mode == 'eval':
            items = [('line', g.expr('test'))]
        else:
            items = g.program()
        for k, v in counters.items():
            ctx.count(k, v)
        lay = Layout(ChoiceStream(cs.d[::-1])) if (layout and cs.bool(160)) else None
        r = render(items, lay)
        text = r.text
        if mode == 'eval':
            text = text.strip('\n') if lay is None else text
        return {'text': text, 'mode': mode, 'py312': bool(py312 and ('type_params' in g.features or 'type_alias' in g.features)),
                '_feats': sorted(g.features | r.feats), '_items': items, '_gen': g, '_marks': r.marks}

    def open(self):
        return open_ids(self.id) | ({'C07-F1'} & open_ids('C07'))

    def reference(self, case, ctx):
        key = (case['text'], case['mode'], bool(case.get('py312')))
        c = getattr(ctx, '_refcache', None)
        if c is not None and c[0] == key:
            return c[1]
        res = self._reference(case, ctx)
        ctx._refcache = (key, res)
        return res

    def _reference(self, case, ctx):
        if case.get('py312'):
            r312 = getattr(ctx, '_r312', None)
            if r312 is None:
                r312 = ctx._r312 = ref.Ref312()
            res = r312.parse(case['text'], case['mode'] if case['mode'] != 'single' else 'exec')
            if res is None:
                ctx.count('skipped_no_python312')
                return None
            return res
        return ref.ref_parse(case['text'], case['mode'] if case['mode'] != 'single' else 'exec')

    def sample_repr(self, case):
        return {'text': case['text'][:400], 'mode': case['mode']}


def public(case):
    return {k: v for k, v in case.items() if not k.startswith('_')}


class C01(ProgramProperty):
    configs = ('A', 'C', 'D')
    id = 'C01'
    technique = 'grammar-based property testing (Hypothesis choice stream -> PyGen programs) with a differential oracle: CPython ast canonical tree'
    level_text = ('~80k (quick) / 650k (thorough) grammar-generated programs and expressions (every statement, expression, pattern and literal form of the '
                  'reference grammar incl. soft keywords as names, PEP 695 via CPython 3.12) in module, interactive and expression mode, plus the standard-library '
                  'files on disk in the thorough tier; acceptance and the whole tree are compared with CPython\'s after the two allowed representation changes')
    level_note = 'trusts CPython 3.11.7 ast (3.12.1 for PEP 695) as the reference and the ASDL-generated dumper; texts CPython rejects are discarded and counted'
    rule = ('PyGen programs (node budget 8..48 quick / ..308 thorough) rendered in the base layout or a random layout; gated by the reference parser; '
            'non-trivial = reference tree with >= 6 nodes and >= 3 distinct node kinds other than Module/Interactive/Expression/Expr/Name/Load; distinct by case hash')
    assumptions = ['identifiers are drawn from characters whose NFKC form and XID status are version-stable (finding C01-F4 covers the rest)']

    def budget(self, tier):
        return 80000 if tier == 'quick' else 650000

    def avoid(self):
        return {'C01-F1', 'C01-F2', 'C01-F3', 'C01-F4', 'C01-F22', 'C01-F23', 'C01-F24', 'C07-F1'}

    def explicit_cases(self, ctx):
        if ctx.tier == 'thorough':
            for path in stdlib_files():
                try:
                    data = open(path, 'rb').read()
                    text = data.decode('utf-8')
                except (OSError, UnicodeDecodeError):
                    continue
                if re.search(rb'coding[:=]\s*(?!utf-?8)', data[:200]) or len(data) > 400000:
                    continue
                yield {'text': text, 'mode': 'exec', 'py312': False, 'file': path}

    def gen(self, cs, ctx):
        case = self.gen_program(cs, ctx)
        if 'C01-F4' in self.open() and any(c in NFKC_UNSTABLE for c in case['text']):
            case['text'] = case['text'].replace('µ', 'mu')
        return public(case)

    def nontrivial(self, case, ctx):
        r = self.reference(case, ctx)
        if not r or r[0] != 'ok':
            return False
        k = ref.kinds(r[1])
        for n in ('Module', 'Interactive', 'Expression', 'Expr', 'Name', 'Load'):
            k.pop(n, None)
        return sum(k.values()) >= 6 and len(k) >= 3

    def check(self, case, ctx):
        r = self.reference(case, ctx)
        if r is None:
            return None
        if r[0] != 'ok':
            ctx.count('gen_invalid')
            return None
        ctx.count('valid_' + case['mode'])
        sut = ctx.sut('A')
        s = sut.call('parse', src=case['text'], mode=case['mode'])
        if 'ok' not in s:
            return Failure('rejects_valid' if 'err' in s else 'panic_or_crash', text=case['text'], mode=case['mode'], reply=s)
        if s.get('ranged_mismatch'):
            return Failure('ranged_accessor_mismatch', text=case['text'], what=s['ranged_mismatch'])
        want, got = ref.erase(r[1]), ref.erase(s['ok'])
        if case['mode'] == 'single':
            if got.get('_') != 'Interactive':
                return Failure('tree_differs:mode_wrapper', text=case['text'], got=got.get('_'))
            want, got = want['body'], got['body']
        else:
            want.pop('type_ignores', None) if False else None
        d = ref.first_diff(want, got)
        if d:
            return Failure('tree_differs:' + norm_path(d[0]), text=case['text'], mode=case['mode'], path=d[0], reference=trim(d[1]), got=trim(d[2]))
        for kind, n in ref.kinds(r[1]).items():
            ctx.count('kind:' + kind, n)
        # the same tree in every feature configuration: a quarter of the programs also go through the full-lexer build (other
        # paths in the lexer, the soft-keyword pass and the token filter) or the num-bigint build
        import zlib
        other = {0: 'C', 1: 'C', 2: 'D'}.get(zlib.crc32(case['text'].encode('utf-8')) % 8) if not case.get('file') else None
        if other:
            ctx.count('also_in_build_' + other)
            s2 = ctx.sut(other).call('parse', src=case['text'], mode=case['mode'])
            if 'ok' not in s2:
                return Failure(('rejects_valid:' if 'err' in s2 else 'panic_or_crash:') + other, text=case['text'], mode=case['mode'], reply=s2)
            d = ref.first_diff(ref.erase(s['ok']), ref.erase(s2['ok']))
            if d:
                return Failure('tree_differs_between_builds:%s:%s' % (other, norm_path(d[0])), text=case['text'], mode=case['mode'], path=d[0],
                               default_build=trim(d[1]), other_build=trim(d[2]))
        return None

    def worker_end(self, ctx):
        # generator-completeness evidence (verdicts never depend on it): which LR productions were reduced
        h = ctx.sut('A').call('hook_hist')
        ctx.sets.setdefault('lr_productions_reduced', set()).update(h.get('hit', []))

    def extra_evidence(self, merged):
        c = merged['counters']
        tot = c.get('gen_invalid', 0) + sum(v for k, v in c.items() if k.startswith('valid_'))
        hit = merged.get('sets', {}).get('lr_productions_reduced', set())
        return {'gen_invalid_rate': round(c.get('gen_invalid', 0) / max(tot, 1), 4), 'lr_productions_total': 911, 'lr_productions_reduced': len(hit),
                'lr_productions_never_reduced': sorted(set(range(911)) - set(hit))[:400]}

    def soft_kw_name_line_with_colon(self, case, ctx):
        """C01-F2 region, decided on the *reference* tree: some statement other than a Match starts with the
        word match/case (so it is used as a name there) and a ':' follows before the end of that line"""
        r = self.reference(case, ctx)
        if not r or r[0] != 'ok':
            return False
        data = case['text'].encode('utf-8')
        found = []

        def walk(x):
            if isinstance(x, dict):
                if x.get('range') and x.get('_') not in ('Match', None) and 'body' not in x or x.get('_') in ('Expr', 'Assign', 'AnnAssign', 'AugAssign'):
                    if x.get('range'):
                        s0 = x['range'][0]
                        m = re.match(rb'(match|case)\b', data[s0:s0 + 6])
                        if m and top_level_colon(data[s0:].decode('utf-8', 'replace')):
                            found.append(s0)
                for v in x.values():
                    walk(v)
            elif isinstance(x, list):
                for v in x:
                    walk(v)
        walk(r[1])
        return bool(found)

    def type_alias_not_at_line_start(self, case, ctx):
        """C01-F3 region, decided on the reference tree: some `type X = ...` statement starts behind other text on its line"""
        r = self.reference(case, ctx)
        if not r or r[0] != 'ok':
            return False
        data = case['text'].encode('utf-8')
        found = []

        def walk(x):
            if isinstance(x, dict):
                if x.get('_') == 'TypeAlias' and x.get('range'):
                    s0 = x['range'][0]
                    ls = max(data.rfind(b'\n', 0, s0), data.rfind(b'\r', 0, s0)) + 1
                    if data[ls:s0].strip(b' \t\x0c\xef\xbb\xbf'):
                        found.append(s0)
                for v in x.values():
                    walk(v)
            elif isinstance(x, list):
                for v in x:
                    walk(v)
        walk(r[1])
        return bool(found)

    # ---- listed findings (predicates over the concrete text; the generator avoids these regions)
    def known(self, case, f, ctx):
        ids = self.open()
        t = case['text']
        sig = f.signature
        if 'C01-F1' in ids and sig.startswith('tree_differs') and 'Subscript.slice' in f.detail.get('path', '') and re.search(r'\[\s*\*[^,\]]*\]', t):
            return 'C01-F1'
        if 'C01-F2' in ids and sig == 'rejects_valid' and self.soft_kw_name_line_with_colon(case, ctx):
            return 'C01-F2'
        if 'C01-F3' in ids and sig == 'rejects_valid' and re.search(r'[;:]\s*type\s+\w+', t) and self.type_alias_not_at_line_start(case, ctx):
            return 'C01-F3'
        if 'C01-F4' in ids and sig.startswith('tree_differs'):
            import unicodedata
            try:
                a, b = json.loads(f.detail.get('reference', 'null')), json.loads(f.detail.get('got', 'null'))
            except ValueError:
                a = b = None
            if isinstance(a, str) and isinstance(b, str) and a != b and unicodedata.normalize('NFKC', b) == a:
                return 'C01-F4'
        if 'C01-F22' in ids and sig.endswith('AnnAssign.simple') and re.search(r'\(\s*\w+\s*\)\s*:', t):
            return 'C01-F22'
        if 'C01-F23' in ids and sig.startswith('tree_differs') and 'Match.subject' in f.detail.get('path', '') and re.search(r'match[^\n]*,\s*:', t):
            return 'C01-F23'
        if 'C01-F24' in ids and sig.endswith('Constant.kind') and re.search(r'(?<![A-Za-z0-9_])U[\'"]', t):
            return 'C01-F24'
        if 'C01-F26' in ids and sig.endswith('Constant.kind') and 'format_spec' in f.detail.get('path', '') and re.search(r'(?<![A-Za-z0-9_])u[\'"]', t):
            return 'C01-F26'
        if 'C01-F6' in ids and sig == 'rejects_valid' and re.search(r'''[fF][rR]?(['"]).*\{[^}]*('{3}|"{3})''', t, re.S):
            return 'C01-F6'
        return None


def top_level_colon(rest):
    """is there a ':' outside all brackets (and outside string literals) before the end of this logical line?"""
    from ..gen.invalid import TOKEN_RE
    depth = 0
    lambdas = 0
    first = True
    pos = 0
    while pos < len(rest):
        m = TOKEN_RE.match(rest, pos)
        if not m or m.end() == pos:
            pos += 1
            continue
        t = m.group(0)
        pos = m.end()
        if t == '\\':
            # explicit line joining: the logical line goes on
            j = re.match(r'\r\n|\r|\n', rest[pos:])
            if j:
                pos += j.end()
            continue
        if t == '#':
            # a comment runs to the end of the physical line (its text is not tokens: a quote in it opens no string)
            e = re.search(r'[\r\n]', rest[pos:])
            pos = pos + e.start() if e else len(rest)
            continue
        if t in ('(', '[', '{'):
            depth += 1
        elif t in (')', ']', '}'):
            depth -= 1
        elif t == 'lambda' and depth == 0:
            lambdas = 1     # (like the look-ahead under test: one pending lambda colon at most, so with two lambdas
            #                  at depth 0 the second colon counts as a top-level one)
        elif t == ':' and depth == 0 and lambdas > 0:
            lambdas -= 1
        elif t == ':' and depth == 0 and not first:
            return True
        elif depth <= 0 and ('\n' in t or '\r' in t) and t.strip() == '':
            return False
        elif t == ';' and depth == 0:
            pass  # the logical line goes on after ';'
        if t.strip():
            first = False
    return False


def trim(x, n=400):
    s = json.dumps(x, ensure_ascii=False, default=str)
    return s if len(s) <= n else s[:n] + '...'


def stdlib_files():
    out = []
    for root in ('/usr/lib/python3.11', '/root/.pyenv/versions/3.11.7/lib/python3.11'):
        for dp, dn, fn in os.walk(root):
            if 'site-packages' in dp or 'lib2to3/tests/data' in dp or 'bad_' in dp:
                continue
            for f in fn:
                if f.endswith('.py'):
                    out.append(os.path.join(dp, f))
    return sorted(out)


PROP = C01()
