"""C04 — syntax rules the parser claims to enforce are enforced, with the right error (DESIGN.md 6/C04)."""
import os
import ast, itertools, re
from ..engine import Property, Failure
from ..known import open_ids
from ..choice import ChoiceStream
from ..gen.pygen import PyGen
from ..gen.layout import render

# ---------------------------------------------------------------------------------------------------
# Each rule yields snippets: (kind, text, (span_start, span_end) of the offending construct inside text, expected)
# kind: 'expr' (an expression), 'stmt' (complete statement lines, unindented), 'tail' (must end the file)
# expected: predicate over the adapter's error JSON {'t':..., 'e':..., ...}


_EMOJI_PRES = []


def emoji_presentation(cp):
    """Emoji_Presentation=Yes in the table the lexer consults: such a character is accepted as a name on purpose
    (an extension of this parser), so it is outside the rule 'a character that cannot begin any token'"""
    if not _EMOJI_PRES:
        for line in open(os.path.join(os.path.dirname(os.path.dirname(os.path.abspath(__file__))), 'data', 'emoji_presentation.txt')):
            if '..' in line and not line.startswith('#'):
                a, b = line.strip().split('..')
                _EMOJI_PRES.append((int(a, 16), int(b, 16)))
    return any(a <= cp <= b for a, b in _EMOJI_PRES)


NO_TOKEN_BLOCKS = [(0x00, 0x20), (0x7f, 0xc0), (0x2000, 0x2070), (0x20a0, 0x20c0), (0x2100, 0x2150), (0x2190, 0x2200), (0x2200, 0x2300), (0x2300, 0x2400), (0x2500, 0x2600),
                   (0x2600, 0x2700), (0x2700, 0x27c0), (0x2b00, 0x2c00), (0x3000, 0x3040), (0xfe00, 0xfe10), (0xff00, 0xff20), (0x1f000, 0x1f100), (0x1f300, 0x1f650),
                   (0x1f680, 0x1f700), (0x1f900, 0x1fa00), (0xe0000, 0xe0080), (0xd7f0, 0xd800), (0xe000, 0xe010), (0xfff0, 0x10000), (0x10fff0, 0x110000), (0x80, 0x110000)]


def gen_no_token_char(cs):
    """a code point that can begin no token: not an identifier start (XID_Start after NFKC, '_'), not a digit, quote,
    operator, blank or line break - drawn from symbol, punctuation, control, format, private-use and unassigned areas"""
    import unicodedata
    for _ in range(8):
        a, b = cs.pick(NO_TOKEN_BLOCKS)
        cp = a + cs.choice(b - a)
        if 0xD800 <= cp <= 0xDFFF:
            continue
        ch = chr(cp)
        if ch in ' \t\n\r\x0c' or ch.isidentifier() or unicodedata.normalize('NFKC', ch)[:1].isidentifier() or ('a' + ch).isidentifier() \
                or ('a' + unicodedata.normalize('NFKC', ch)).isidentifier():
            continue
        if ch in '()[]{}:,;.=<>+-*/%@&|^~!#\'"\\' or ch.isdigit() or emoji_presentation(cp):
            continue
        if unicodedata.normalize('NFKC', ch) != ch and not all(0x20 < ord(c) < 0x7f and c in '$?`' for c in unicodedata.normalize('NFKC', ch)):
            continue   # compatibility forms of operators / blanks: what they become is another rule's business
        return ch
    return '$'


def lex(e, *names):
    return e.get('t') == 'Lexical' and e.get('e') in names


def fs(e, *kinds):
    return e.get('t') == 'Lexical' and e.get('e') == 'FStringError' and e['fs'].get('f') in kinds


def fs_inner(e, pred):
    return e.get('t') == 'Lexical' and e.get('e') == 'FStringError' and e['fs'].get('f') == 'InvalidExpression' and pred(e['fs']['inner'])


def other(e, *words):
    return e.get('t') == 'Lexical' and e.get('e') == 'OtherError' and all(w in e.get('text', '') for w in words)


def unrec(e, tokkind=None):
    return e.get('t') == 'UnrecognizedToken' and (tokkind is None or e['tok']['k'] == tokkind)


def whole(text):
    return (0, len(text))


def span_of(text, sub, nth=0):
    if re.fullmatch(r'\w+', sub):
        # identifiers: whole-word occurrences only ('a' is not the a of 'lambda' / 'class' / 'async')
        ms = [m for m in re.finditer(r'(?<![\w])%s(?![\w])' % re.escape(sub), text) if text[:m.start()].rstrip()[-6:] not in ('lambda',) or True]
        ms = [m for m in ms if m.group(0) == sub and not (m.start() == 0 and sub in ('lambda', 'def', 'class', 'async'))]
        m = ms[nth]
        return (m.start(), m.end())
    i = -1
    for _ in range(nth + 1):
        i = text.index(sub, i + 1)
    return (i, i + len(sub))


def rules(cs, g):
    """-> list of (rule id, kind, text, span, expected predicate, use_compile_gate)"""
    def x():
        t = render([('line', g.primary())]).text.strip('\n')   # a small valid operand
        try:
            ast.parse(t, mode='eval')
            return t if '\n' not in t and '\\' not in t else 'x'
        except (SyntaxError, ValueError):
            return 'x'
    n = lambda: cs.pick(['a', 'b', 'kw', 'é', 'match', 'x1', '_y'])
    out = []
    a, b, c = x(), x(), x()
    op, cl = cs.pick([('(', ')'), ('[', ']'), ('{', '}')])
    wrong = cs.pick([k for k in ')]}' if k != cl])
    out.append(('R01_unclosed_bracket_at_eof', 'tail', 'f%s%s, %s' % (op, a, b) if op == '(' else 'x = %s%s, %s' % (op, a, b), None, lambda e: lex(e, 'Eof'), False))
    t = '%s %s' % (a, cl)
    # (inside an enclosing bracket of the host the surplus closer pairs up with the wrong opener: a mismatch, reported by the parser;
    #  the error may sit on any of the closers that follow, so the construct extends to the end of the line)
    out.append(('R02_extra_closer', 'expr_to_eol', t, (len(a) + 1, len(t)), lambda e: lex(e, 'NestingError') or unrec(e, 'Rpar') or unrec(e, 'Rsqb') or unrec(e, 'Rbrace'), False))
    n1, n2 = cs.pick(['a', 'b', 'x1']), cs.pick(['c', 'd', '_y'])
    t = '%s%s, %s%s' % (op, n1, n2, wrong)
    out.append(('R03_mismatched_pair', 'expr_to_eol', t, (len(t) - 1, len(t)), lambda e: unrec(e, 'Rpar') or unrec(e, 'Rsqb') or unrec(e, 'Rbrace') or lex(e, 'NestingError', 'Eof'), False))
    # dedent to a column that is no enclosing level: random widths, one or two open levels, and (half of the time) a form feed
    # inside the leading blanks of the offending line, which restarts the column count there
    w1 = 1 + cs.choice(8)
    w2 = w1 + 1 + cs.choice(8)
    two = cs.bool()
    cands = [k for k in range(1, (w2 if two else w1)) if k != w1]
    if cands:
        col = cs.pick(cands)
        lead = ' ' * col if cs.bool() else ' ' * cs.choice(7) + '\x0c' + ' ' * col
        t = 'if %s:\n%s%s\n' % (a, ' ' * w1, ('if %s:\n%s%s' % (b, ' ' * w2, c)) if two else b) + lead + cs.pick(['d', 'pass', 'x = 1']) + '\n'
    else:
        t = 'if %s:\n        %s\n    %s\n' % (a, b, c)
    out.append(('R04_dedent_to_unknown_level', 'stmt', t, None, lambda e: lex(e, 'IndentationError'), False))
    t = cs.pick(['if %s:\n        %s\n\t%s\n', 'if %s:\n\t%s\n        %s\n', 'if %s:\n\t        %s\n                %s\n', 'while %s:\n        %s\n\t%s\n']) % (a, b, c)
    out.append(('R05_tab_space_ambiguity', 'stmt', t, None, lambda e: e.get('tab_err') is True, False))
    out.append(('R06_tab_after_space', 'stmt', 'if %s:\n  \t%s\n' % (a, b), None, lambda e: lex(e, 'TabsAfterSpaces'), 'nogate'))
    bad = cs.pick(['$', '?', '`', '!', '\x00', '\x7f', '€', '§', '\x1b', '\xa0', '\u2003', '\u200b']) if cs.bool(100) else gen_no_token_char(cs)
    t = '%s %s %s' % (a, bad, b)
    out.append(('R07_character_that_begins_no_token', 'expr', t, (len(a) + 1, len(a) + 1 + len(bad)), lambda e: lex(e, 'UnrecognizedToken'), False))
    # (anything but a line break: blanks of every kind, a comment, another backslash, letters, digits, brackets, quotes, non-ASCII)
    after = cs.pick([' ', '\t', '\x0c', '#', '# c', '\\', 'x', '1', '(', ')', '"', "'", '\u00e9', '\u00a0', '\u2028', '\x0b', ' \n', '\t\r\n', '+', '.', '\x00'])
    t = '%s + \\%s %s' % (a, after, b)
    out.append(('R08_text_after_line_continuation', 'expr', t, (len(a) + 3, len(a) + 4 + len(after.encode('utf-8'))), lambda e: lex(e, 'LineContinuationError'), False))
    out.append(('R09_backslash_then_eof', 'tail', 'x = %s \\' % a, None, lambda e: lex(e, 'Eof', 'LineContinuationError'), False))
    num = cs.pick(['0x', '0b2', '0o8', '1__0', '1_', '0_', '1e_5', '012', '0b', '0o', '1_e5', '0x_', '1e', '1e+', '0xg', '1.2.3', '0777', '1__1.0', '09', '00_1x'][:16])
    out.append(('R10_malformed_number', 'expr', num, whole(num), lambda e: 'ANY', False))
    s = cs.pick(["'abc", '"abc', "'a' 'b", "b'abc", "f'abc"])
    out.append(('R11_unterminated_string', 'tail_line', s, whole(s), lambda e: other(e, 'EOL') or lex(e, 'StringError', 'Eof'), False))
    s = cs.pick(["'''abc", '"""a\nb', "f'''{x}"])
    out.append(('R11_unterminated_triple_quoted', 'tail', 'x = ' + s, None, lambda e: lex(e, 'Eof'), False))
    fcases = [("f'{'", ('UnclosedLbrace',)), ("f'}'", ('SingleRbrace', 'UnopenedRbrace')), ("f'{}'", ('EmptyExpression',)), ("f'{%s!z}'" % n(), ('InvalidConversionFlag',)),
              ("f'{%s!}'" % n(), ('InvalidConversionFlag', 'EmptyExpression', 'UnclosedLbrace', 'ExpectedRbrace')), ("f'{%s!r x}'" % n(), ('ExpectedRbrace', 'UnclosedLbrace')),
              ("f'{(%s}'" % n(), ('MismatchedDelimiter', 'UnclosedLbrace')), ("f'{%s]}'" % n(), ('Unmatched', 'MismatchedDelimiter')), ("f'{\\\\}'", ('ExpressionCannotInclude', 'UnterminatedString', 'InvalidExpression')),
              ("f'{%s:{%s:{%s}}}'" % (n(), n(), n()), ('ExpressionNestedTooDeeply',)), ("f'{\"}'", ('UnterminatedString', 'UnclosedLbrace')), ("f'{#}'", ('ExpressionCannotInclude', 'InvalidExpression')),
              ("f'{%s'" % n(), ('UnclosedLbrace',)), ("f'{ }'", ('EmptyExpression',)), ("f'{%s!r:{'" % n(), ('UnclosedLbrace',)), ("f'a}b'", ('SingleRbrace', 'UnopenedRbrace')),
              ("f'{!r}'", ('EmptyExpression',)), ("f'{:x}'", ('EmptyExpression',)), ("f'{%s %s}'" % (n(), n()), ('InvalidExpression',)),
              ("f'{%s!rr}'" % n(), ('InvalidConversionFlag', 'ExpectedRbrace', 'UnclosedLbrace')), ("f'{%s:{}}'" % n(), ('EmptyExpression',)), ("f'{%s=!}'" % n(), ('InvalidConversionFlag',))]
    ftxt, fk = cs.pick(fcases)
    if cs.bool(128):
        # bracket errors inside a replacement field, built from their grammar: openers, an expression, then a closer that does not
        # match the innermost opener (or that nothing opened), or the end of the literal in the middle of the field's tail
        OPEN, CLOSE = '([{', ')]}'
        fp, fq = cs.pick(['f', 'F', 'rf', 'Fr']), cs.pick(["'", '"', "'''", '"""'])
        opens = [cs.choice(3) for _ in range(cs.choice(3))]
        j = cs.choice(4)
        inner = ''.join(OPEN[o] for o in opens) + n()
        if inner.startswith('{'):
            inner = ' ' + inner         # (`{{` would be a literal brace)
        if j == 0 and opens:
            # wrong closer for the innermost opener
            w = (opens[-1] + 1 + cs.choice(2)) % 3
            inner += CLOSE[w] + ''.join(CLOSE[o] for o in reversed(opens[:-1]))
            ftxt, fk = fp + fq + cs.pick(['', 'a ']) + '{' + inner + '}' + fq, ('MismatchedDelimiter', 'Unmatched', 'UnclosedLbrace')
        elif j == 1:
            # a closer that nothing opened, after everything that was opened has been closed
            inner += ''.join(CLOSE[o] for o in reversed(opens)) + CLOSE[cs.choice(2)]
            ftxt, fk = fp + fq + '{' + inner + '}' + fq, ('Unmatched', 'MismatchedDelimiter')
        elif j == 2:
            # the literal ends inside the field: after the expression, the `!`, the conversion, the `:` or a nested field
            inner += ''.join(CLOSE[o] for o in reversed(opens)) + cs.pick(['', '!', '!r', '!r:', ':', ':>{', ':{' + n(), '=', '=!', ' '])
            ftxt, fk = fp + fq + cs.pick(['', 'a']) + '{' + inner + fq, ('UnclosedLbrace', 'ExpectedRbrace', 'InvalidConversionFlag', 'UnterminatedString', 'EmptyExpression')
        else:
            # openers never closed before the field's own brace
            if not opens:
                inner = OPEN[cs.choice(2)] + n()
            ftxt, fk = fp + fq + '{' + inner + '}' + fq, ('MismatchedDelimiter', 'UnclosedLbrace', 'Unmatched')
    out.append(('R12_malformed_fstring', 'expr', ftxt, whole(ftxt), lambda e, fk=fk: fs(e, *fk), False))
    # 2-4 adjacent literals, at least one bytes and one text literal, every prefix spelling and quote style, any order
    BP = ['b', 'B', 'rb', 'Rb', 'bR', 'BR', 'br', 'rB']
    TP = ['', 'u', 'U', 'r', 'R', 'f', 'F', 'rf', 'fr', 'Rf', 'fR', 'RF', 'FR']

    def lit(pfx):
        q = cs.pick(["'", '"', "'''", '"""'])
        body = cs.pick(['', 'a', 'ab c', '{x}' if 'f' in pfx.lower() else 'x', '0'])
        return pfx + q + body + q
    kinds = [True, False] + [cs.bool() for _ in range(cs.choice(3))]
    k0 = cs.choice(len(kinds))
    kinds = kinds[k0:] + kinds[:k0]
    t = ' '.join(lit(cs.pick(BP) if isb else cs.pick(TP)) for isb in kinds)
    out.append(('R13_bytes_mixed_with_text', 'expr', t, whole(t), lambda e: other(e, 'cannot mix bytes'), False))
    ch = cs.pick(['é', '中', 'ß', '\U0001f600', '\x80', '\xff', '\u0100']) if cs.bool() else chr(0x80 + cs.choice(0x2f00))
    q = cs.pick(["'", '"', "'''", '"""'])
    # (directly behind a backslash the character is met by the escape decoder, not by the plain-character path)
    t = cs.pick(BP) + q + cs.pick(['', 'a', '\\x41', 'ab', '\\', 'a\\', '\\\\', '\\\n', '\\n\\']) + ch + cs.pick(['', 'z']) + q
    out.append(('R14_non_ascii_bytes_literal', 'expr', t, whole(t), lambda e: other(e, 'bytes can only contain ASCII'), False))
    # malformed escapes built from their grammar: too few hex digits, a non-hex digit, a code point above U+10FFFF, \N without
    # or with an unknown / unterminated name; in text and f-string literals (and \x in bytes)
    hexd = '0123456789abcdefABCDEF'
    j = cs.choice(7)
    if j == 0:
        esc = '\\x' + ''.join(cs.pick(hexd) for _ in range(cs.choice(2))) + cs.pick(['', 'g', ' ', 'z'])
    elif j == 1:
        esc = '\\u' + ''.join(cs.pick(hexd) for _ in range(cs.choice(4))) + cs.pick(['', 'g', ' ', '-'])
    elif j == 2:
        esc = '\\U' + ''.join(cs.pick(hexd) for _ in range(cs.choice(8))) + cs.pick(['', 'x', ' '])
    elif j == 3:
        esc = '\\U%08x' % (0x110000 + cs.pick([0, 1, 0xffff, 0xeeffff, 0xffeeffff - 0x110000]) if cs.bool() else 0x110000 + cs.choice(0x7fee0000))
    elif j == 4:
        esc = cs.pick(['\\N', '\\N{}', '\\N{', '\\N{DIGIT ONE', '\\N{NOT A CHARACTER NAME}', '\\N{digit  one}', '\\N{DIGIT ONE }', '\\N{U+0041}', '\\N DIGIT ONE'])
    elif j == 5:
        esc = '\\x' + cs.pick(hexd) + cs.pick(['g', 'G', '_', '.'])
    else:
        esc = cs.pick(["\\x4", "\\x", "\\xg1", "\\u12", "\\u123g", "\\U0011000", "\\U00110000", "\\U1234567"])
    pfx = cs.pick(['', 'u', 'f', 'F', 'b'] if esc.startswith('\\x') else ['', 'u', 'f', 'F', 'U'])
    q = cs.pick(["'", '"', '"""'])
    t = pfx + q + cs.pick(['', 'a', 'é']) .replace('é', 'e' if pfx == 'b' else 'é') + esc + q
    out.append(('R15_invalid_escape', 'expr', t, whole(t), lambda e: lex(e, 'UnicodeError', 'Eof', 'StringError') or other(e), False))
    # ---- parameter lists
    p1, p2 = n(), n()
    forms = [('def f(%s, %s): pass\n', 'stmt'), ('def f(%s, /, %s): pass\n', 'stmt'), ('def f(%s, *, %s): pass\n', 'stmt'), ('def f(%s, *%s): pass\n', 'stmt'),
             ('def f(%s, **%s): pass\n', 'stmt'), ('def f(*%s, %s): pass\n', 'stmt'), ('async def f(%s=1, *, %s=2): pass\n', 'stmt'), ('(lambda %s, %s: 0)', 'expr'),
             ('(lambda %s, *%s: 0)', 'expr'), ('(lambda *, %s, **%s: 0)', 'expr'), ('def f(%s: int, %s: str = "") -> None: pass\n', 'stmt')]
    ftmpl, fkind = cs.pick(forms)
    t = ftmpl % (p1, p1)
    if cs.bool(150):
        # a whole parameter list from its grammar: 2-6 parameters over the five kinds, two of them (any two kinds, `*a` and `**a`
        # included) sharing one name
        kinds = []
        for kind, mx in (('posonly', 2), ('pos', 2), ('vararg', 1), ('kwonly', 2), ('kwarg', 1)):
            kinds += [kind] * cs.choice(mx + 1)
        if len(kinds) < 2:
            kinds = cs.pick([['vararg', 'kwarg'], ['pos', 'kwarg'], ['posonly', 'vararg'], ['pos', 'pos'], ['kwonly', 'kwonly']])
        i1 = cs.choice(len(kinds))
        i2 = (i1 + 1 + cs.choice(len(kinds) - 1)) % len(kinds)
        lam = cs.bool(70)
        names = ['q%d' % j for j in range(len(kinds))]
        names[i1] = names[i2] = p1
        parts, seen_default = [], False
        for j, (kind, nm) in enumerate(zip(kinds, names)):
            if kind == 'kwonly' and 'vararg' not in kinds and (j == 0 or kinds[j - 1] != 'kwonly'):
                parts.append('*')
            txt = {'vararg': '*', 'kwarg': '**'}.get(kind, '') + nm
            if not lam and cs.bool(60):
                txt += ': int'
            if kind in ('posonly', 'pos') and (seen_default or cs.bool(60)):
                txt += '=1' if lam or ':' not in txt else ' = 1'
                seen_default = True
            elif kind == 'kwonly' and cs.bool(100):
                txt += '=2' if lam or ':' not in txt else ' = 2'
            parts.append(txt)
            if kind == 'posonly' and (j + 1 == len(kinds) or kinds[j + 1] != 'posonly'):
                parts.append('/')
        sig = ', '.join(parts)
        t, fkind = ('(lambda %s: 0)' % sig, 'expr') if lam else ('%sdef f(%s): pass\n' % (cs.pick(['', 'async ']), sig), 'stmt')
    # (either occurrence may be the one reported: the construct is the pair)
    out.append(('R16_duplicate_parameter', fkind, t, (span_of(t, p1, 0)[0], span_of(t, p1, 1)[1]), lambda e, p=p1: lex(e, 'DuplicateArgumentError') and e.get('arg') == p, True))
    forms = [('def f(%s=1, %s): pass\n', 'stmt'), ('def f(%s=1, /, %s): pass\n', 'stmt'), ('def f(x, %s=1, /, %s): pass\n', 'stmt'), ('(lambda %s=1, %s: 0)', 'expr'),
             ('def f(%s=1, %s, *, z): pass\n', 'stmt'), ('def f(x, /, %s=1, %s): pass\n', 'stmt'), ('(lambda %s=1, /, %s: 0)', 'expr')]
    ftmpl, fkind = cs.pick(forms)
    t = ftmpl % ('p', 'q')
    if cs.bool(170):
        # the positional part of a parameter list from its grammar: 2-6 parameters, a run with defaults, then `q` without one;
        # the `/` anywhere, annotations (def only), and any tail (`*a`, keyword-only parameters - where a missing default after a
        # default is allowed -, `**kw`) behind it
        lam = cs.bool(90)
        npar = 2 + cs.choice(5)
        j = 1 + cs.choice(npar - 1)          # index of the offender
        d = cs.choice(j)                     # first parameter with a default
        ann = lambda: '' if lam or not cs.bool(80) else ': ' + cs.pick(['int', 'str', '"T"', 'a.b'])
        ps, dflt_later = [], False
        for i in range(npar):
            if i == j:
                ps.append('q' + ann())
            elif d <= i < j or (i > j and cs.bool()):
                ps.append('p%d%s=%s' % (i, ann(), cs.pick(['1', 'None', '()', '"s"'])))
            else:
                ps.append('p%d%s' % (i, ann()))
        if cs.bool(100):
            ps.insert(1 + cs.choice(npar), '/')
        tail = cs.pick(['', '', ', *a', ', *, k', ', *, k=1, m', ', **kw', ', *a, k, **kw'])
        sig = ', '.join(ps) + tail + (',' if cs.bool(40) else '')
        t, fkind = ('(lambda %s: 0)' % sig, 'expr') if lam else ('%sdef f(%s): pass\n' % (cs.pick(['', 'async ']), sig), 'stmt')
    out.append(('R17_non_default_after_default', fkind, t, span_of(t, 'q'), lambda e: lex(e, 'DefaultArgumentError'), False))
    k1 = n()
    forms = ['f(%s=1, %s)' % (k1, a), 'f(x, %s=1, %s, y)' % (k1, a), 'f(**k, %s)' % a, 'g(h(%s=1, %s))' % (k1, a)]
    t = cs.pick(forms)
    r18span = span_of(t, a, 0) if t.startswith('f(**') else (t.index(a, t.index('=1, ') + 4), t.index(a, t.index('=1, ') + 4) + len(a))

    def arglist(kind):
        """a call's argument list from its grammar with one offender (named OFF / *OFF / a repeated keyword) -> (text, span of the offender)"""
        items = ['x%d' % i for i in range(cs.choice(3))]                        # positional
        if cs.bool(60):
            items.append('*it0')
        kws = ['kw%d' % i for i in range(1 + cs.choice(3))]
        mid = [k + '=' + cs.pick(['1', 'None', 'y']) for k in kws]
        if cs.bool(80):
            mid.insert(cs.choice(len(mid) + 1), '*it1')                        # iterable unpacking among keywords is fine
        has_dstar = kind == 'R19' or cs.bool(90)
        if has_dstar:
            lo = mid.index('*it1') + 1 if '*it1' in mid else 0                  # (never in front of an iterable unpacking: that is rule R19)
            mid.insert(lo + cs.choice(len(mid) - lo + 1), '**m0')
        if kind == 'R18':
            off = 'OFF'
            fk = min(i for i, m in enumerate(mid) if not m.startswith('*it'))   # the first keyword / ** item
            pos = fk + 1 + cs.choice(len(mid) - fk)
        elif kind == 'R19':
            off = '*OFF'
            fk = mid.index('**m0')
            pos = fk + 1 + cs.choice(len(mid) - fk)
        else:
            off = kws[0] + '=2'
            fk = min(i for i, m in enumerate(mid) if m.startswith(kws[0] + '='))
            pos = fk + 1 + cs.choice(len(mid) - fk)
        mid.insert(pos, off)
        body = ', '.join(items + mid) + (',' if cs.bool(40) else '')
        host = cs.pick(['f(%s)', 'g(h(%s))', 'a.b(%s)', 'f(1)(%s)', 'class C(%s): pass\n', '@d(%s)\ndef g(): pass\n'])
        txt = host % body
        start = txt.index(body) + len(', '.join(items + mid[:pos]))
        start += 2 if (items or pos) else 0
        return txt, (start, start + len(off)), ('stmt' if txt.endswith('\n') else 'expr')
    if cs.bool(150):
        t, r18span, _k = arglist('R18')
        out.append(('R18_positional_after_keyword', _k, t, r18span, lambda e: lex(e, 'PositionalArgumentError'), False))
    else:
        out.append(('R18_positional_after_keyword', 'expr', t, r18span, lambda e: lex(e, 'PositionalArgumentError'), False))
    t = cs.pick(['f(**k, *%s)' % n(), 'f(x, **k, *%s)' % n(), 'f(**k, y=1, *%s)' % n()])
    if cs.bool(150):
        t, sp19, _k = arglist('R19')
        out.append(('R19_star_after_double_star', _k, t, sp19, lambda e: lex(e, 'UnpackedArgumentError'), False))
    else:
        out.append(('R19_star_after_double_star', 'expr', t, (t.index(', *') + 2, len(t) - 1), lambda e: lex(e, 'UnpackedArgumentError'), False))
    t = cs.pick(['f(%s=1, %s=2)', 'f(x, %s=1, *y, %s=2)', 'f(%s=1, **k, %s=2)', 'g(h(%s=1, %s=2))', 'class C(B, %s=1, %s=2): pass\n'])
    t = t % (k1, k1)
    if cs.bool(150):
        t, sp20, _k = arglist('R20')
        out.append(('R20_repeated_keyword', _k, t, sp20, lambda e: lex(e, 'DuplicateKeywordArgumentError') and e.get('arg') == 'kw0', True))
    else:
        out.append(('R20_repeated_keyword', 'stmt' if t.startswith('class') else 'expr', t, span_of(t, k1, 1), lambda e, k=k1: lex(e, 'DuplicateKeywordArgumentError') and e.get('arg') == k, True))
    # built from the grammar (each combination of what stands before and after the bare star is a production of its own):
    # [posonly... /] [params...] * [,]   in a def or a lambda
    lam = cs.bool(100)
    ps = []
    if cs.bool(100):
        ps += ['p%d' % i for i in range(1 + cs.choice(2))] + ['/']
    dflt = False
    for i in range(cs.choice(3)):
        dflt = dflt or cs.bool(80)
        ps.append('q%d%s%s' % (i, ': int' if not lam and cs.bool(80) else '', '=1' if dflt else ''))
    # (`*, **kw` is *not* generated: the rule this parser checks is literally "nothing after the star", and it lets `def f(*, **k)`
    # through - the reference rejects that one too, but the property is about the rules the parser itself claims)
    ps.append('*')
    body = ', '.join(ps) + (',' if cs.bool(80) else '')
    t = ('(lambda %s: 0)' % body) if lam else 'def f(%s): pass\n' % body
    out.append(('R21_bare_star_with_nothing_after', 'stmt' if t.startswith('def') else 'expr', t, span_of(t, '*'), lambda e: other(e, 'named arguments must follow bare *'), False))
    t = cs.pick(['(*%s)' % n(), '(**%s)' % n(), 'x = (*%s)' % n(), 'f((*%s))' % n(), 'print((**%s))' % n()])
    out.append(('R22_parenthesised_lone_star', 'expr' if not t.startswith('x =') else 'stmt_line', t, span_of(t, '*'), lambda e: other(e, 'cannot use') or other(e, 'starred') or other(e, 'double starred'), False))
    t = cs.pick(['match x:\n    case %s as _: pass\n', 'match x:\n    case [%s as _, y]: pass\n', 'match x:\n    case C(%s as _): pass\n', 'match x:\n    case {1: %s as _}: pass\n',
                 'match x:\n    case (%s | 2) as _: pass\n'])
    sub = cs.pick(['1', 'y', '[a, b]', 'None'])
    t = t % sub
    st = t.index('(' + sub + ' | 2) as _') if '| 2' in t else t.index(sub + ' as _')
    out.append(('R23_as_underscore_in_pattern', 'stmt', t, (st, t.index('as _') + 4), lambda e: other(e, '_'), False))
    return out


EXPR_HOSTS = ['{E}', 'x = {E}', 'f({E})', '[{E}]', '[1, {E}, 2]', 'if {E}:\n    pass', 'def g():\n    return {E}', 'class C(B, k={E}):\n    pass', '@d({E})\ndef g(): pass',
              'x = lambda: {E}', 'while x:\n    y = {E}\n    break', 'x[{E}]', 'with {E} as y: pass', 'assert {E}', 'del x[{E}]', 'x = {{1: {E}}}', 'for a in {E}: pass',
              'x = y if {E} else z', 'try:\n    pass\nexcept E:\n    {E}', 'class C:\n    def m(self):\n        return {E}']
STMT_HOSTS = ['{S}', 'if x:\n{S1}', 'class C:\n{S1}', 'def g():\n{S1}', 'for i in y:\n    if z:\n{S2}', 'try:\n{S1}finally:\n    pass\n', 'while x:\n{S1}']


def indent(text, n):
    return ''.join(' ' * n + l for l in text.splitlines(True))


class C04(Property):
    id = 'C04'
    configs = ('A',)
    bytes_per_case = 512
    level = 'fault_enumeration'
    technique = ('fault injection into inputs: a 23-rule catalogue of rule-violating constructs (random operands, every syntactic position class: statement, block, '
                 'call, class bases, decorator, lambda, subscript ...) embedded in valid programs; oracle = Err of the rule\'s variant at an offset inside the '
                 'offending construct, with CPython also rejecting the text')
    level_text = ('every rule x host pair deterministically on each run (23 rules x 27 hosts) plus ~100k (quick) / 1M (thorough) random (rule, operands, host, '
                  'surrounding program) combinations; all malformed-number strings over 0-9 _ . e x o b j + - up to length 4 (quick) / 5 (thorough) are enumerated and '
                  'must be rejected whenever CPython rejects them')
    level_note = ('the expected error variant per rule was written from the error type documentation; message texts of OtherError are only matched by keyword; '
                  'CPython compile() is the sanity gate that the edit really broke a rule')
    rule = ('rule catalogue x operands x host template x surrounding program; non-trivial = distinct (rule, host) pairs and distinct texts; the rule x host matrix '
            'is reported in classes; distinct by case hash')

    def budget(self, tier):
        return 100000 if tier == 'quick' else 1000000

    def explicit_cases(self, ctx):
        alphabet = '0123456789_.exobj+-'[:19]
        n = 4 if ctx.tier == 'quick' else 5
        for k in range(1, n + 1):
            chunk = []
            for t in itertools.product('019_.exobj+-' if k >= 4 else alphabet, repeat=k):
                s = ''.join(t)
                if s[0] in '0123456789.':
                    chunk.append(s)
                if len(chunk) >= 200:
                    yield {'k': 'numbers', 'items': chunk}
                    chunk = []
            if chunk:
                yield {'k': 'numbers', 'items': chunk}
        # every rule in every host, fixed operands
        for ri in range(40):
            for hi in range(len(EXPR_HOSTS) + len(STMT_HOSTS)):
                for variant in range(3):
                    yield {'k': 'rule', 'seed': [ri, hi, variant], 'rule_index': ri, 'host_index': hi, 'pre': '', 'post': ''}

    def gen(self, cs, ctx):
        if cs.bool(40):
            # near-miss numeric literals: one or two character edits of a valid number that keep it one number-like blob
            from ..gen import literals
            t = list(literals.gen_number(cs))
            for _ in range(1 + cs.choice(2)):
                j = cs.choice(3)
                if j == 0 or not t:
                    t.insert(cs.choice(len(t) + 1), cs.pick('_eE.+-jxob0_9'))
                elif j == 1:
                    del t[cs.choice(len(t))]
                else:
                    t[cs.choice(len(t))] = cs.pick('_eE.+-jxob0_')
            s = ''.join(t)
            if re.fullmatch(r'[0-9.][0-9a-zA-Z_.]*(?:[eE][+-][0-9a-zA-Z_.]*)?', s) and not s.startswith('..'):
                return {'k': 'numbers', 'items': [s]}
            return None
        seed = list(cs.bytes(24))
        pre = post = ''
        if cs.bool(100):
            g = PyGen(ChoiceStream(cs.d[128:]), budget=4 + cs.choice(14), py312=False)
            pre = render(g.program(nstmts=1 + cs.choice(2))).text
        if cs.bool(60):
            g = PyGen(ChoiceStream(cs.d[256:]), budget=4 + cs.choice(10), py312=False)
            post = render(g.program(nstmts=1)).text
        return {'k': 'rule', 'seed': seed, 'rule_index': cs.choice(40), 'host_index': cs.choice(len(EXPR_HOSTS) + len(STMT_HOSTS)), 'pre': pre, 'post': post}

    def build(self, case):
        """-> (rule id, text, (abs span) or None, expected predicate, compile_gate) or None"""
        # every rule draws from this stream in turn: expand the seed so that the later rules of the catalogue still get
        # varied choices (with a short stream they always fell back to their first variant)
        import hashlib
        sd = bytes(b % 256 for b in case['seed'])
        cs = ChoiceStream(b''.join(hashlib.blake2b(sd + bytes([j])).digest() for j in range(12)))
        g = PyGen(ChoiceStream(bytes((b * 7 + 3) % 256 for b in case['seed']) * 4), budget=5, fstrings=False, soft_kw=False, ascii_only=False)
        rs = rules(cs, g)
        rid, kind, text, span, pred, gate = rs[case['rule_index'] % len(rs)]
        pre, post = case['pre'], case['post']
        if gate is True:
            pre = post = ''
        hi = case['host_index']
        if kind in ('expr', 'expr_to_eol'):
            host = EXPR_HOSTS[hi % len(EXPR_HOSTS)]
            i = host.index('{E}')
            head, tail = host[:i].replace('{{', '{').replace('}}', '}'), host[i + 3:].replace('{{', '{').replace('}}', '}')
            body = head + text + tail
            off = len(head)
            full = pre + body + '\n' + post
            sp = (len(pre.encode()) + len(body[:off].encode()) + len(text[:span[0]].encode()), len(pre.encode()) + len(body[:off].encode()) + len(text[:span[1]].encode())) if span else None
            if sp and kind == 'expr_to_eol':
                sp = (sp[0], len(pre.encode()) + len((head + text + tail.split('\n')[0]).encode()))
            return rid, full, sp, pred, gate, 'expr:' + host.split('{E}')[0].strip()[:12]
        if kind in ('stmt', 'stmt_line'):
            if not text.endswith('\n'):
                text += '\n'
            host = STMT_HOSTS[hi % len(STMT_HOSTS)]
            lvl = 0 if '{S}' in host else (4 if '{S1}' in host else 8)
            ind = indent(text, lvl)
            body = host.replace('{S}', ind).replace('{S1}', ind).replace('{S2}', ind)
            head = host[:host.index('{S')]
            full = pre + body + post
            sp = None
            if span:
                # recompute the span in the indented text: count added indentation before the span start
                lines_before = text[:span[0]].count('\n')
                base = len(pre.encode()) + len(head.encode())
                sp = (base + len(text[:span[0]].encode()) + lvl * (lines_before + 1), base + len(text[:span[1]].encode()) + lvl * (text[:span[1]].count('\n') + 1))
            return rid, full, sp, pred, gate, 'stmt:' + head.strip()[:10]
        if kind == 'tail_line':
            full = pre + 'x = ' + text + '\n' + post
            base = len(pre.encode()) + 4
            return rid, full, (base, base + len(text.encode()) + 1), pred, gate, 'line'
        # 'tail': the construct must end the file
        full = pre + text
        return rid, full, (len(pre.encode()), len(full.encode())), pred, gate, 'tail'

    def nontrivial(self, case, ctx):
        return True

    def sample_repr(self, case):
        if case['k'] == 'numbers':
            return {'numbers': case['items'][:8]}
        b = self.build(case)
        return {'rule': b[0], 'text': b[1][:300]}

    def check(self, case, ctx):
        sut = ctx.sut('A')
        if case['k'] == 'numbers':
            fails = []
            for s in case['items']:
                text = 'x = ' + s + '\n'
                try:
                    ast.parse(text)
                    continue
                except SyntaxError:
                    pass
                except (ValueError, MemoryError):
                    continue
                ctx.count('malformed_numbers')
                r = sut.call('parse', src=text, mode='exec')
                if 'ok' in r:
                    fails.append(Failure('malformed_number_accepted', text=text))
                elif 'err' not in r:
                    fails.append(Failure('panic_or_crash', text=text, reply=str(r)[:300]))
                elif not (4 <= r['offset'] <= 4 + len(s) + 1):
                    fails.append(Failure('malformed_number_error_outside_literal', text=text, offset=r['offset'], error=r['err']))
            return fails or None
        rid, text, span, pred, gate, host = self.build(case)
        for part in (case['pre'], case['post']):
            if part:
                # the surrounding program must be fine on its own for both parsers, otherwise nothing is learnt
                try:
                    ast.parse(part)
                except (SyntaxError, ValueError, RecursionError, MemoryError):
                    ctx.count('context_invalid')
                    return None
                if 'ok' not in sut.call('parse', src=part, mode='exec'):
                    ctx.count('context_not_accepted_by_this_parser_(C01)')
                    return None
        try:
            if gate != 'nogate':   # (a tab after a space in indentation is this lexer's own, deliberately stricter rule: CPython accepts it)
                compile(text, '<c04>', 'exec', dont_inherit=True) if gate else ast.parse(text)
                ctx.count('edit_not_a_violation_for_cpython:' + rid)
                return None
        except SyntaxError:
            pass
        except (ValueError, RecursionError, MemoryError):
            return None
        ctx.count('%s @ %s' % (rid, host))
        r = sut.call('parse', src=text, mode='exec')
        if 'ok' in r:
            return Failure('rule_not_enforced:' + rid, text=text, rule=rid)
        if 'err' not in r:
            return Failure('panic_or_crash', text=text, rule=rid, reply=str(r)[:300])
        e = r['err']
        verdict = pred(e)
        if verdict != 'ANY' and not verdict:
            return Failure('wrong_error_kind:' + rid, text=text, rule=rid, error=e, offset=r['offset'])
        if span is not None and not (span[0] <= r['offset'] <= span[1]):
            return Failure('error_offset_outside_construct:' + rid, text=text, rule=rid, error=e, offset=r['offset'], span=list(span),
                           span_text=text.encode()[span[0]:span[1]].decode('utf-8', 'replace'))
        return None

    def known(self, case, f, ctx):
        return None


PROP = C04()
