"""C20 — str.format templates split into the same fields as Python's (DESIGN.md 6/C20)."""
import itertools, re, _string
from ..engine import Property, Failure
from ..known import open_ids
from .. import valuegen as vg

SYMS = ['{', '}', '[', ']', '!', ':', '.', '0', 'a']
NAME_SYMS = ['.', '[', ']', '0', 'a', '1', '-']


def py_template(t):
    try:
        items = list(_string.formatter_parser(t))
    except ValueError as e:
        return ('err', str(e))
    out = []
    for lit, name, spec, conv in items:
        if lit:
            if out and 'lit' in out[-1]:
                out[-1]['lit'] += lit
            else:
                out.append({'lit': lit})
        if name is not None:
            out.append({'field': name, 'conv': conv, 'spec': spec})
    return ('ok', out)


def norm_sut_parts(parts):
    out = []
    for p in parts:
        if 'lit' in p:
            if not p['lit']:
                continue
            if out and 'lit' in out[-1]:
                out[-1]['lit'] += p['lit']
            else:
                out.append({'lit': p['lit']})
        else:
            out.append(p)
    return out


def py_field_name(name):
    try:
        first, rest = _string.formatter_field_name_split(name)
        rest = list(rest)
    except ValueError as e:
        return ('err', str(e))
    if isinstance(first, int):
        head = {'t': 'index', 'v': str(first)}
    elif first == '':
        head = {'t': 'auto'}
    else:
        head = {'t': 'keyword', 'v': first}
    parts = []
    for is_attr, key in rest:
        if is_attr:
            parts.append({'t': 'attr', 'v': key})
        elif isinstance(key, int):
            parts.append({'t': 'index', 'v': str(key)})
        else:
            parts.append({'t': 'key', 'v': key})
    return ('ok', {'head': head, 'parts': parts})


INDEX_BORDERS = [0, 1, 9, 10, 2 ** 31 - 1, 2 ** 31, 2 ** 31 + 1, 2 ** 32 - 1, 2 ** 32, 2 ** 63 - 1, 2 ** 63, 2 ** 64 - 1, 2 ** 64, 10 ** 18, 10 ** 19]


def gen_index_text(cs):
    """digit text of a head / subscript: any size up to beyond 64 bits, leading zeros, a sign or blank now and then"""
    v = cs.pick(INDEX_BORDERS) + cs.pick([0, 0, 1, -1]) if cs.bool() else cs.choice(10 ** cs.pick([1, 3, 9, 10, 12, 19]))
    t = str(max(v, 0))
    if cs.bool(30):
        t = '0' * (1 + cs.choice(3)) + t
    if cs.bool(20):
        t = cs.pick(['+', '-', ' ', '_']) + t
    if cs.bool(12):
        t += cs.pick([' ', '_', 'a', '.0'])
    return t


def gen_key_text(cs):
    """key / attribute text: any characters but the separators, white space of every kind at the edges included"""
    t = vg.gen_text(cs, 4, ['abcXYZ_', '019', 'é中\U0001f600', ' \t\u3000\xa0\u2003', '-+*/%', '١٢'])
    t = ''.join(c for c in t if c not in '.[]{}!:')
    if cs.bool(50):
        t = cs.pick([' ', '\t', '\u3000', '\xa0']) + t
    if cs.bool(50):
        t += cs.pick([' ', '\t', '\u3000', '\xa0'])
    return t


def gen_field(cs, depth=0):
    name = ''
    k = cs.choice(5)
    if k == 1:
        name = str(cs.choice(12))
    elif k == 2:
        name = cs.pick(['a', 'abc', 'x1', '_', 'é', 'kw'])
    elif k == 3:
        name = cs.pick(['0x', '-1', '+1', '007', '1 ', ' a', '99999999999999999999', '١'])
    for _ in range(cs.small(3)):
        if cs.bool():
            name += '.' + cs.pick(['a', 'b1', '', 'é', '0', 'a b'])
        else:
            name += '[' + cs.pick(['0', '1', 'k', 'a.b', 'x y', '', '-1', '{', '}', ':', '!', '[', '007']) + ']'
    s = '{' + name
    if cs.bool(90):
        s += '!' + cs.pick(['r', 's', 'a', 'x', '', 'rr', 'é'])
    if cs.bool(120):
        s += ':'
        for _ in range(cs.small(3)):
            j = cs.choice(4)
            if j == 0:
                s += cs.pick(['>10', '.3f', 'x', '^', ' ', 'é<5', ':', '!r', '[', ']'])
            elif j == 1 and depth == 0:
                s += gen_field(cs, 1)
            elif j == 2:
                s += cs.pick(['{', '}', '{{', '}}'])
            else:
                s += cs.pick(['d', '08.3', '%Y-%m', ','])
    return s + '}'


class C20(Property):
    id = 'C20'
    configs = ('A',)
    bytes_per_case = 96
    technique = 'property-based differential testing against CPython _string.formatter_parser / formatter_field_name_split (exhaustive small templates + Hypothesis)'
    level_text = ('all templates of <= 5 (quick) / <= 7 (thorough) symbols over the 9-symbol alphabet { } [ ] ! : . 0 a and all field names of <= 5 '
                  '(<= 7) symbols over . [ ] 0 a 1 - enumerated on every run, plus ~30k / 1M grammar-generated templates with mutations; parts, '
                  "field names, conversions, specs and rejections must equal CPython's")
    level_note = "trusts CPython's _string module (the C implementation behind str.format / string.Formatter)"
    rule = ('templates = literal text (incl. multi-byte) + doubled braces + fields {name[!conv][:spec with one nesting level]} + character mutations; '
            'field names = head (auto/index/keyword) + .attr / [index] chains; non-trivial = >= 1 field with a spec, conversion, bracket or nested '
            'brace (templates), >= 1 accessor (names); distinct by case hash')

    def budget(self, tier):
        return 100000 if tier == 'quick' else 1000000

    def explicit_cases(self, ctx):
        n = 5 if ctx.tier == 'quick' else 7
        for k in range(0, n + 1):
            for t in itertools.product(SYMS, repeat=k):
                yield {'k': 'template', 't': ''.join(t)}
        for k in range(0, n + 1):
            for t in itertools.product(NAME_SYMS, repeat=k):
                yield {'k': 'name', 't': ''.join(t)}

    def gen(self, cs, ctx):
        if cs.bool(60):
            name = ''
            k = cs.choice(6)
            if k == 1:
                name = str(cs.choice(100))
            elif k == 2:
                name = cs.pick(['a', 'abc', 'é', '_x', 'a b'])
            elif k == 3:
                name = cs.pick(['+1', '-1', '007', '١', '99999999999999999999', '1a', ' 1', '1 ', '0x1', '1_0'])
            elif k == 4:
                name = gen_index_text(cs)
            elif k == 5:
                name = gen_key_text(cs)
            for _ in range(cs.small(4)):
                j = cs.choice(6)
                if j < 2:
                    name += '.' + (cs.pick(['a', 'bc', '', 'é', '1', 'a]']) if cs.bool(170) else gen_key_text(cs))
                elif j < 4:
                    name += '[' + (cs.pick(['0', '12', 'k', 'a.b', '', '+1', '007', '[', 'é', ' ']) if cs.bool(150) else (gen_index_text(cs) if cs.bool() else gen_key_text(cs))) + ']'
                else:
                    name += cs.pick(['[', ']', '.', 'x', '..', '[]'])
            case = {'k': 'name', 't': name}
        else:
            t = ''
            for _ in range(1 + cs.choice(4)):
                j = cs.choice(6)
                if j == 0:
                    t += vg.gen_text(cs, 5, ['abc ', 'é中', '\U0001f600', '0.1', '[]!:'])
                elif j == 1:
                    t += cs.pick(['{{', '}}', '{{}}', '}}{{'])
                else:
                    t += gen_field(cs)
            m = cs.choice(10)
            if m == 0 and t:
                i = cs.choice(len(t) + 1)
                t = t[:i] + cs.pick('{}[]!:.') + t[i:]
            elif m == 1 and t:
                i = cs.choice(len(t))
                t = t[:i] + t[i + 1:]
            case = {'k': 'template', 't': t}
        ex = self.region(case)
        if ex in open_ids('C20'):
            # not excluded: most inputs of these regions behave correctly and stay checked; failures inside a
            # region are attributed to the listed finding only when the failure kind matches (see known())
            ctx.count('in_region[%s]' % ex)
        return case

    def nontrivial(self, case, ctx):
        t = case['t']
        if case['k'] == 'name':
            return '.' in t or '[' in t
        r = py_template(t)
        if r[0] != 'ok':
            return '{' in t and len(t) >= 3
        return any('field' in p and (p['spec'] or p['conv'] or '[' in p['field']) for p in r[1])

    def check(self, case, ctx):
        sut = ctx.sut('A')
        t = case['t']
        if case['k'] == 'template':
            exp = py_template(t)
            r = sut.call('format_template', template=t)
            ctx.count('template_' + exp[0])
            if 'panic' in r or 'crash' in r:
                return Failure('panic', t=t, reply=r)
            if exp[0] == 'err':
                if 'err' not in r:
                    return Failure('template_accepts_invalid', t=t, python=exp[1], got=r)
                return None
            if 'err' in r:
                # the property claims "one level of nested braces kept verbatim" in a format spec; CPython's splitter
                # itself accepts any depth (the limit is applied later, when formatting): deeper nesting is outside the claim
                deep = False
                for part in exp[1]:
                    d = m = 0
                    for ch in part.get('spec') or '':
                        d += (ch == '{') - (ch == '}')
                        m = max(m, d)
                    deep = deep or m > 1
                if deep:
                    ctx.count('skipped_spec_nesting_deeper_than_one_level')
                    return None
                return Failure('template_rejects_valid', t=t, python=exp[1], got=r)
            got = norm_sut_parts(r['parts'])
            if got != exp[1]:
                return Failure('template_parts_differ', t=t, got=got, expected=exp[1])
            return None
        exp = py_field_name(t)
        r = sut.call('field_name', name=t)
        ctx.count('name_' + exp[0])
        if 'panic' in r or 'crash' in r:
            return Failure('panic', t=t, reply=r)
        if exp[0] == 'err':
            if 'err' not in r:
                return Failure('name_accepts_invalid', t=t, python=exp[1], got=r)
            return None
        if 'err' in r:
            return Failure('name_rejects_valid', t=t, python=exp[1], got=r)
        if r != exp[1]:
            return Failure('name_parts_differ', t=t, got=r, expected=exp[1])
        return None

    BRACKET_INTERPLAY = re.compile(r'\[[^\]]*([{}!:]|$)')

    def region(self, case, f=None):
        """listed-finding region of the input (predicates over the concrete text), given the failure kind"""
        t = case['t']
        sig = f.signature if f else ''
        if case['k'] == 'name':
            if any(int(m) > 2 ** 63 - 1 for m in re.findall(r'[0-9]+', t)) and sig in ('', 'name_accepts_invalid'):
                return 'C20-F4'
            if any(c.isdecimal() and not c.isascii() for c in t) and sig in ('', 'name_parts_differ'):
                return 'C20-F5'
            return None
        if self.BRACKET_INTERPLAY.search(t) and '{' in t:
            return 'C20-F1'
        if re.search(r'![{}:]', t) and sig in ('', 'template_rejects_valid'):
            return 'C20-F2'
        if '!{' in t and sig == 'template_accepts_invalid':
            # the same finding seen from the other side: the '{' taken as the conversion by CPython opens a nesting level
            # here, so a later '}' that CPython reports as single is swallowed ('{!{:}}!')
            return 'C20-F2'
        if f is not None and sig == 'template_accepts_invalid' and "unexpected '{' in field name" in str(f.detail.get('python')):
            return 'C20-F3'
        return None

    def known(self, case, f, ctx):
        if f.signature == 'panic':
            return None
        r = self.region(case, f)
        return r if r in open_ids('C20') else None


PROP = C20()
