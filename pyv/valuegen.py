"""Value generators shared by C16-C20 (DESIGN.md 4.6): doubles, integers, text."""
import struct


def f_from_bits(b):
    return struct.unpack('<d', struct.pack('<Q', b & 0xFFFFFFFFFFFFFFFF))[0]


def bits_of(v):
    return struct.unpack('<Q', struct.pack('<d', v))[0]


def nextafter_up(v, n=1):
    b = bits_of(v)
    return f_from_bits(b + n) if v >= 0 else f_from_bits(b - n)


def structured_doubles_exhaustive():
    """deterministic sweep: every biased exponent x {0, 1, 2^52-1} mantissa, both signs for a
    subset; 10^k and its two neighbours for every k in [-324, 308]; specials"""
    for e in range(0, 2047):
        for m in (0, 1, (1 << 52) - 1):
            yield f_from_bits((e << 52) | m)
        if e % 64 == 0:
            yield f_from_bits((1 << 63) | (e << 52) | 0x8000000000001)
    for k in range(-324, 309):
        v = float('1e%d' % k)
        yield v
        if v > 0:
            yield f_from_bits(bits_of(v) - 1)
        yield f_from_bits(bits_of(v) + 1)
    for v in (0.0, -0.0, float('inf'), float('-inf'), float('nan'), 2.0 ** 53, 2.0 ** 53 - 1, 2.0 ** 53 + 2, 1e16, 9999999999999998.0,
              1e-4, 1e-5, 0.0001, 9.999999999999999e-05, 0.00010000000000000002, 0.9999999999999999, 1.0000000000000002,
              0.1, 0.2, 0.30000000000000004, 1.5, 2.5, 0.5, 1e22, 1e23, 5e-324, 2.2250738585072014e-308, 1.7976931348623157e308,
              123456789012345.6, 1234567890123456.8, 99999999999999.98, 999999999999999.9, 1e15, 1e15 + 0.5, 4503599627370495.5):
        yield v
        yield -v


def gen_double(cs):
    k = cs.choice(10)
    if k == 0:
        e = cs.choice(2047)
        m = cs.pick((0, 1, (1 << 52) - 1, None))
        if m is None:
            m = cs.u64() & ((1 << 52) - 1)
        v = f_from_bits((e << 52) | m)
    elif k == 1:
        p = cs.int(-324, 308)
        v = float('1e%d' % p)
        d = cs.choice(5) - 2
        v = f_from_bits(max(bits_of(v) + d, 0))
    elif k == 2:
        base = cs.pick((2.0 ** 53, 2.0 ** 52, 2.0 ** 31, 2.0 ** 63, 2.0 ** 64, 1e15, 1e16, 1e17, 1.0, 10.0, 100.0, 1000.0, 65536.0))
        v = f_from_bits(bits_of(base) + cs.choice(9) - 4)
    elif k == 3:
        v = cs.pick((1e16, 1e-4, 1e-5, 9999999999999998.0, 0.9999999999999999, 999999999999999.9, 0.001, 1e-3, 1e21, 1e22))
        v = f_from_bits(bits_of(v) + cs.choice(5) - 2)
    elif k == 4:
        v = f_from_bits(cs.u64() & ((1 << 52) - 1))  # subnormal
    elif k == 5:
        v = cs.pick((0.0, float('inf'), float('nan'), 5e-324, 1.7976931348623157e308, 2.2250738585072014e-308))
    elif k == 6:
        # short decimals
        ip = cs.choice(100000)
        fp = cs.choice(1000)
        ex = cs.int(-30, 30) if cs.bool(64) else 0
        v = float('%d.%03de%d' % (ip, fp, ex))
    elif k == 7:
        v = float(cs.choice(1 << 16) - 100) / cs.pick((1, 2, 4, 8, 10, 100, 1000, 3, 7))
    else:
        v = f_from_bits(cs.u64())
    if v == v and cs.bool(64):
        v = -v
    return v


def gen_int(cs):
    k = cs.choice(8)
    if k == 0:
        v = cs.choice(20)
    elif k == 1:
        v = cs.choice(1 << 16)
    elif k == 2:
        v = (1 << cs.choice(130)) + cs.choice(3) - 1
    elif k == 3:
        v = 10 ** cs.choice(40) + cs.choice(3) - 1
    elif k == 4:
        v = cs.u64()
    elif k == 5:
        n = cs.choice(300) + 1
        v = int(''.join(cs.pick('0123456789') for _ in range(min(n, 60))) or '0') * 10 ** max(n - 60, 0) + cs.choice(1000)
    elif k == 6:
        v = cs.pick((0, 1, 9, 10, 99, 100, 999, 1000, 9999, 12345, 123456, 1234567, 255, 256, 65535, 2 ** 31, 2 ** 32, 2 ** 63, 2 ** 64))
    else:
        v = cs.choice(1 << 24)
    if cs.bool(80):
        v = -v
    return v


TEXT_CLASSES = [
    "abcxyzABC019_ ", "'", '"', "\\", "\x00\x01\x07\x08\t\n\x0b\x0c\r\x1b\x1f", "\x7f", "\x80\x85\xa0\xad\xff\xe9\xdf",
    "   　 ", "​‎⁠﻿­", "", "͸԰￿", "́̈⃐",
    "中Ａあ가", "\U0001f600\U00010000\U0010ffff\U000e0001\U0001d11e", "{}[]!:.%",
    # borders of the UTF-8 / UTF-16 length classes and of the surrogate gap, noncharacters, private use
    "\x7f\x80\xff\u0100\u07ff\u0800\ud7ff\ue000\ufffd\ufffe\uffff\U00010000\U0001ffff\U000f0000\U0010fffe\U0010ffff",
]


def gen_text(cs, maxlen=12, classes=None):
    classes = classes or TEXT_CLASSES
    n = cs.choice(maxlen + 1)
    out = []
    for _ in range(n):
        if classes is TEXT_CLASSES and cs.bool(20):
            cp = cs.choice(0x110000)            # any code point at all (lone surrogates cannot be passed to the adapter)
            out.append(chr(cp) if not 0xD800 <= cp <= 0xDFFF else '\ue000')
            continue
        c = cs.pick(classes)
        out.append(cs.pick(c))
    return ''.join(out)
