"""Coverage-guided tier (DESIGN.md 3.5): run a cargo-fuzz target whose semantic oracle lives in the target.

Campaigns are only approximately reproducible (libFuzzer); the saved crashing input is the reproducible unit:
`./check <ID> --replay <artifact>` re-runs the target on exactly that input."""
import glob, os, re, shutil, subprocess, time
from . import build

VERIF = os.path.dirname(os.path.dirname(os.path.abspath(__file__)))
FUZZ_DIR = os.path.join(VERIF, 'fuzzing')


def _env():
    env = dict(os.environ)
    env['CARGO_NET_OFFLINE'] = 'true'
    env['RUSTFLAGS'] = '--cfg rustpython_parser_verif'
    return env


def build_target(target):
    p = subprocess.run(['cargo', '+nightly', 'fuzz', 'build', target], cwd=FUZZ_DIR, env=_env(), stdout=subprocess.PIPE, stderr=subprocess.STDOUT)
    return p.returncode == 0, p.stdout.decode('utf-8', 'replace')[-3000:]


def binary(target):
    return os.path.join(FUZZ_DIR, 'fuzz', 'target', 'x86_64-unknown-linux-gnu', 'release', target)


def run_campaign(target, seconds, seed, seeds=(), jobs=12, max_len=2048):
    """-> dict(executions, crashes, wall_s, built)"""
    if os.path.realpath(build.REPO) != '/repo':
        return {'skipped': 'fuzz targets are built against /repo only'}
    ok, log = build_target(target)
    if not ok:
        return {'build_failed': log}
    work = os.path.join(VERIF, 'target', 'fuzz-work', '%s-%d' % (target, os.getpid()))
    shutil.rmtree(work, ignore_errors=True)
    corpus = os.path.join(work, 'corpus')
    art = os.path.join(work, 'artifacts')
    os.makedirs(corpus)
    os.makedirs(art)
    for i, data in enumerate(seeds):
        open(os.path.join(corpus, 'seed-%04d' % i), 'wb').write(data)
    t0 = time.time()
    cmd = [binary(target), corpus, '-artifact_prefix=' + art + '/', '-max_total_time=%d' % seconds, '-seed=%d' % (seed % (1 << 31) or 1), '-len_control=0',
           '-max_len=%d' % max_len, '-jobs=%d' % jobs, '-workers=%d' % jobs, '-print_final_stats=1', '-timeout=60', '-rss_limit_mb=4096']
    subprocess.run(cmd, cwd=work, env=_env(), stdout=subprocess.DEVNULL, stderr=subprocess.DEVNULL)
    execs = 0
    for lf in glob.glob(os.path.join(work, 'fuzz-*.log')):
        txt = open(lf, errors='replace').read()
        m = re.findall(r'stat::number_of_executed_units:\s*(\d+)', txt)
        if m:
            execs += int(m[-1])
        else:
            m = re.findall(r'^#(\d+)\s', txt, re.M)
            if m:
                execs += int(m[-1])
    crashes = []
    keep = os.path.join(VERIF, 'replays')
    os.makedirs(keep, exist_ok=True)
    for a in sorted(glob.glob(os.path.join(art, '*'))):
        name = os.path.basename(a)
        kind = name.split('-')[0]
        dst = os.path.join(keep, '%s-%s' % (target, name))
        shutil.copy(a, dst)
        msg = ''
        for lf in glob.glob(os.path.join(work, 'fuzz-*.log')):
            txt = open(lf, errors='replace').read()
            if name in txt:
                mm = re.search(r"panicked at [^\n]*\n([^\n]*)", txt)
                msg = (mm.group(0) if mm else '')[:400]
                break
        crashes.append({'path': dst, 'kind': kind, 'message': msg})
    n_corpus = len(os.listdir(corpus))
    shutil.rmtree(work, ignore_errors=True)
    return {'executions': execs, 'crashes': crashes, 'wall_s': round(time.time() - t0, 1), 'corpus_files': n_corpus, 'seeds': len(seeds)}


def replay(target, path):
    ok, log = build_target(target)
    if not ok:
        return 2, log
    p = subprocess.run([binary(target), path], cwd=FUZZ_DIR, env=_env(), stdout=subprocess.PIPE, stderr=subprocess.STDOUT)
    return (0 if p.returncode == 0 else 1), p.stdout.decode('utf-8', 'replace')[-2500:]


def program_seeds(extra=()):
    """starting corpus for the targets that decode (mode, offset, text) with fuzz_targets/common.rs: raw-mode inputs
    (bit 7 of the first byte set): mode selector, offset selector, then the text"""
    from .gen.invalid import FAMILIES
    texts = ['x = 1\n', 'def f(a, *b, c=1, **d):\n    return a\n', 'match x:\n    case [1, *r] if r: pass\n', 'class C(B, k=1):\n  @d\n  async def f(self): await x\n',
             "f'{x!r:>{w}}' 'a' b'c'\n", 'try:\n  pass\nexcept* E as e:\n  raise\nfinally:\n  pass\n', 'with (a as b, c): pass\n', 'type X[T] = list[T]\n', 'x = [i for i in y if i]\n',
             'lambda *a, k=1: (yield)\n', 'if x:\n\ty\nelse:\n\tz\n', '\ufeffx = "\\N{DIGIT ONE}"\r\n', 'def f(a, b=1, /, c=2, *, d, e=3, **k): pass\n', 'lambda a=1, /, b=2, *c, d, e=5: 0\n',
             '() = x\nfor () in y: pass\n', 'x = (1, 2), (a, 3)\n', 'x = """a\n\u00e9b""" + y\n']
    texts += list(extra)
    texts += [FAMILIES[n](12) for n in sorted(FAMILIES)]
    out = []
    for i, t in enumerate(texts):
        out.append(bytes([0x80 | (i % 3), i % 6]) + t.encode('utf-8'))
    return out
