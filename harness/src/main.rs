//! `sut` — JSON-lines adapter exposing the public API of the crates under /repo.
#![allow(unexpected_cfgs)]
//! One request per input line, one reply per output line. No Python-language property
//! logic lives here: ops call the public API and serialise results canonically.
#![allow(clippy::all)]
use rustpython_parser::text_size::TextSize;
use rustpython_parser::{lexer, Mode};
use serde_json::Value;
use std::io::{BufRead, Write};

#[macro_use]
mod dump;
mod ops_float;
mod ops_format;
mod ops_format2;
mod ops_parse;
mod ops_pos;
mod ops_repr;
#[cfg(feature = "treeops")]
mod ops_tree;

use dump::jstr;

pub fn mode_of(s: &str) -> Mode {
    match s {
        "eval" => Mode::Expression,
        "single" => Mode::Interactive,
        _ => Mode::Module,
    }
}
pub fn req_str<'a>(req: &'a Value, k: &str) -> &'a str {
    req[k].as_str().unwrap_or("")
}
pub fn req_u64(req: &Value, k: &str) -> u64 {
    req[k].as_u64().unwrap_or(0)
}
pub fn req_bool(req: &Value, k: &str) -> bool {
    req[k].as_bool().unwrap_or(false)
}
pub fn req_bytes(req: &Value, k: &str) -> Vec<u8> {
    let s = req_str(req, k);
    (0..s.len() / 2).map(|i| u8::from_str_radix(&s[2 * i..2 * i + 2], 16).unwrap()).collect()
}
pub fn req_f64(req: &Value, k: &str) -> f64 {
    f64::from_bits(u64::from_str_radix(req_str(req, k), 16).unwrap())
}
pub fn opt_str(o: Option<String>) -> String {
    match o {
        Some(s) => jstr(&s),
        None => "null".into(),
    }
}

fn dispatch(req: &Value) -> String {
    let op = req_str(req, "op");
    match op {
        "ping" => format!(
            "{{\"ok\":\"pong\",\"cfg\":\"{}\",\"hooks\":{}}}",
            if cfg!(feature = "cfgA") {
                "A"
            } else if cfg!(feature = "cfgC") {
                "C"
            } else if cfg!(feature = "cfgD") {
                "D"
            } else {
                "B"
            },
            cfg!(rustpython_parser_verif)
        ),
        "panic_test" => panic!("deliberate panic for harness self-test"),
        _ => {
            if let Some(r) = ops_parse::dispatch(op, req) {
                return r;
            }
            if let Some(r) = ops_float::dispatch(op, req) {
                return r;
            }
            if let Some(r) = ops_format::dispatch(op, req) {
                return r;
            }
            if let Some(r) = ops_pos::dispatch(op, req) {
                return r;
            }
            if let Some(r) = ops_repr::dispatch(op, req) {
                return r;
            }
            #[cfg(feature = "treeops")]
            if let Some(r) = ops_tree::dispatch(op, req) {
                return r;
            }
            format!("{{\"bad_op\":{}}}", jstr(op))
        }
    }
}

thread_local! { static PANIC_LOC: std::cell::RefCell<String> = std::cell::RefCell::new(String::new()); }

pub fn guarded<F: FnOnce() -> String + std::panic::UnwindSafe>(f: F) -> String {
    match std::panic::catch_unwind(f) {
        Ok(s) => s,
        Err(e) => {
            let msg = e
                .downcast_ref::<String>()
                .cloned()
                .or(e.downcast_ref::<&str>().map(|s| s.to_string()))
                .unwrap_or_default();
            let loc = PANIC_LOC.with(|l| l.borrow().clone());
            format!("{{\"panic\":{},\"at\":{}}}", jstr(&msg), jstr(&loc))
        }
    }
}

fn run() {
    std::panic::set_hook(Box::new(|info| {
        let loc = info.location().map(|l| format!("{}:{}", l.file(), l.line())).unwrap_or_default();
        PANIC_LOC.with(|l| *l.borrow_mut() = loc);
    }));
    let stdin = std::io::stdin();
    let stdout = std::io::stdout();
    let mut out = std::io::BufWriter::new(stdout.lock());
    for line in stdin.lock().lines() {
        let line = line.unwrap();
        if line.is_empty() {
            continue;
        }
        let req: Value = match serde_json::from_str(&line) {
            Ok(v) => v,
            Err(e) => {
                writeln!(out, "{{\"bad_request\":{}}}", jstr(&e.to_string())).unwrap();
                out.flush().unwrap();
                continue;
            }
        };
        // "batch": run a list of requests, reply with a list (amortises pipe round trips)
        let reply = if let Some(list) = req["batch"].as_array() {
            let mut o = String::from("[");
            for (i, r) in list.iter().enumerate() {
                if i > 0 {
                    o.push(',');
                }
                dump::take_mismatches();
                o.push_str(&guarded(|| dispatch(r)));
            }
            o.push(']');
            o
        } else {
            dump::take_mismatches();
            guarded(|| dispatch(&req))
        };
        writeln!(out, "{}", reply).unwrap();
        out.flush().unwrap();
    }
}

fn main() {
    // deep recursion in the generated parser / folds on deeply nested input: give the worker
    // a large stack so that "realistic nesting" never overflows because of the adapter
    let stack = std::env::var("SUT_STACK_MB").ok().and_then(|s| s.parse::<usize>().ok()).unwrap_or(8);
    let h = std::thread::Builder::new().stack_size(stack << 20).spawn(run).unwrap();
    h.join().unwrap();
}

#[allow(dead_code)]
pub fn lex_mode(src: &str, mode: Mode, k: u32) -> impl Iterator<Item = lexer::LexResult> + '_ {
    lexer::lex_starts_at(src, mode, TextSize::from(k))
}
