//! Canonical JSON serialisation of trees, tokens and errors (DESIGN.md 3.1).
use rustpython_ast as ast;
use rustpython_parser::lexer::LexicalErrorType;
use rustpython_parser::text_size::{TextRange, TextSize};
use rustpython_parser::{FStringErrorType, ParseErrorType, Tok};
use std::cell::RefCell;

thread_local! { pub static MISMATCH: RefCell<Vec<String>> = RefCell::new(Vec::new()); }
pub fn mismatch(kind: &str, what: &str) {
    MISMATCH.with(|m| m.borrow_mut().push(format!("{kind}:{what}")));
}
pub fn take_mismatches() -> Vec<String> {
    MISMATCH.with(|m| std::mem::take(&mut *m.borrow_mut()))
}

pub fn jstr(s: &str) -> String {
    serde_json::to_string(s).unwrap()
}

pub trait Dump {
    fn dump(&self, o: &mut String);
}
impl<T: Dump> Dump for Vec<T> {
    fn dump(&self, o: &mut String) {
        o.push('[');
        for (i, x) in self.iter().enumerate() {
            if i > 0 {
                o.push(',');
            }
            x.dump(o);
        }
        o.push(']');
    }
}
impl<T: Dump> Dump for Option<T> {
    fn dump(&self, o: &mut String) {
        match self {
            Some(x) => x.dump(o),
            None => o.push_str("null"),
        }
    }
}
impl<T: Dump> Dump for Box<T> {
    fn dump(&self, o: &mut String) {
        (**self).dump(o)
    }
}
impl Dump for TextRange {
    fn dump(&self, o: &mut String) {
        o.push_str(&format!("[{},{}]", u32::from(self.start()), u32::from(self.end())));
    }
}
impl Dump for TextSize {
    fn dump(&self, o: &mut String) {
        o.push_str(&u32::from(*self).to_string());
    }
}
#[cfg(feature = "treeops")]
impl Dump for rustpython_parser_core::source_code::SourceLocation {
    fn dump(&self, o: &mut String) {
        o.push_str(&format!("[{},{}]", self.row.get(), self.column.get()));
    }
}
#[cfg(feature = "treeops")]
impl Dump for rustpython_parser_core::source_code::SourceRange {
    fn dump(&self, o: &mut String) {
        o.push('[');
        self.start.dump(o);
        o.push(',');
        self.end.dump(o);
        o.push(']');
    }
}
impl<R> Dump for ast::EmptyRange<R> {
    fn dump(&self, o: &mut String) {
        o.push_str("null")
    }
}
impl Dump for bool {
    fn dump(&self, o: &mut String) {
        o.push_str(if *self { "true" } else { "false" })
    }
}
impl Dump for String {
    fn dump(&self, o: &mut String) {
        o.push_str(&jstr(self))
    }
}
impl Dump for ast::Identifier {
    fn dump(&self, o: &mut String) {
        o.push_str(&jstr(self.as_str()))
    }
}
impl Dump for ast::Int {
    fn dump(&self, o: &mut String) {
        o.push_str(&self.to_u32().to_string())
    }
}
impl Dump for ast::ConversionFlag {
    fn dump(&self, o: &mut String) {
        o.push_str(&(*self as i32).to_string())
    }
}
pub fn dump_str_cps(s: &str, o: &mut String) {
    o.push('[');
    for (i, ch) in s.chars().enumerate() {
        if i > 0 {
            o.push(',');
        }
        o.push_str(&(ch as u32).to_string());
    }
    o.push(']');
}
pub fn hex(b: &[u8]) -> String {
    let mut s = String::with_capacity(b.len() * 2);
    for x in b {
        s.push_str(&format!("{:02x}", x));
    }
    s
}
impl Dump for ast::Constant {
    fn dump(&self, o: &mut String) {
        use ast::Constant::*;
        match self {
            None => o.push_str("{\"c\":\"None\"}"),
            Bool(b) => o.push_str(&format!("{{\"c\":\"bool\",\"v\":{}}}", b)),
            Str(s) => {
                o.push_str("{\"c\":\"str\",\"v\":");
                dump_str_cps(s, o);
                o.push('}');
            }
            Bytes(b) => {
                o.push_str("{\"c\":\"bytes\",\"v\":\"");
                o.push_str(&hex(b));
                o.push_str("\"}");
            }
            Int(i) => o.push_str(&format!("{{\"c\":\"int\",\"v\":\"{}\"}}", i)),
            Tuple(t) => {
                o.push_str("{\"c\":\"tuple\",\"v\":");
                t.dump(o);
                o.push('}');
            }
            Float(f) => o.push_str(&format!("{{\"c\":\"float\",\"v\":\"{:016x}\"}}", f.to_bits())),
            Complex { real, imag } => o.push_str(&format!(
                "{{\"c\":\"complex\",\"v\":[\"{:016x}\",\"{:016x}\"]}}",
                real.to_bits(),
                imag.to_bits()
            )),
            Ellipsis => o.push_str("{\"c\":\"Ellipsis\"}"),
        }
    }
}

macro_rules! chk_text {
    ($s:expr, $k:expr) => {
        if ast::Ranged::range($s) != $s.range {
            crate::dump::mismatch($k, "Ranged::range != field");
        }
    };
}
macro_rules! chke_text {
    ($s:expr, $k:expr, $($v:ident),*) => {
        let r = ast::Ranged::range($s);
        let f = match $s { $( Self::$v(x) => x.range, )* };
        if r != f { crate::dump::mismatch($k, "enum Ranged::range != variant field"); }
    };
}
#[cfg(feature = "treeops")]
macro_rules! chk_loc {
    ($s:expr, $k:expr) => {
        let r = ast::located::Located::range($s);
        if r.start != $s.range.start || r.end != $s.range.end {
            crate::dump::mismatch($k, "Located::range != field");
        }
    };
}
#[cfg(feature = "treeops")]
macro_rules! chke_loc {
    ($s:expr, $k:expr, $($v:ident),*) => {
        let r = ast::located::Located::range($s);
        let f = match $s { $( Self::$v(x) => x.range, )* };
        if r.start != f.start || r.end != f.end { crate::dump::mismatch($k, "enum Located::range != variant field"); }
    };
}

macro_rules! hand_dump {
    ($R:ty) => {
        impl Dump for ast::Arguments<$R> {
            fn dump(&self, o: &mut String) {
                o.push_str("{\"_\":\"arguments\",\"range\":");
                self.range.dump(o);
                o.push_str(",\"posonlyargs\":");
                self.posonlyargs.dump(o);
                o.push_str(",\"args\":");
                self.args.dump(o);
                o.push_str(",\"vararg\":");
                self.vararg.dump(o);
                o.push_str(",\"kwonlyargs\":");
                self.kwonlyargs.dump(o);
                o.push_str(",\"kwarg\":");
                self.kwarg.dump(o);
                o.push('}');
            }
        }
        impl Dump for ast::ArgWithDefault<$R> {
            fn dump(&self, o: &mut String) {
                o.push_str("{\"_\":\"arg_with_default\",\"range\":");
                self.range.dump(o);
                o.push_str(",\"def\":");
                self.def.dump(o);
                o.push_str(",\"default\":");
                self.default.dump(o);
                o.push('}');
            }
        }
    };
}

include!("dump_gen.rs");

hand_dump!(TextRange);
gen_dump!(TextRange, chk_text, chke_text);
#[cfg(feature = "treeops")]
hand_dump!(rustpython_parser_core::source_code::SourceRange);
#[cfg(feature = "treeops")]
gen_dump!(rustpython_parser_core::source_code::SourceRange, chk_loc, chke_loc);

// ---------------------------------------------------------------- tokens and errors

pub fn tok_json(t: &Tok) -> String {
    match t {
        Tok::Name { name } => format!("{{\"k\":\"Name\",\"name\":{}}}", jstr(name)),
        Tok::Int { value } => format!("{{\"k\":\"Int\",\"v\":\"{}\"}}", value),
        Tok::Float { value } => format!("{{\"k\":\"Float\",\"v\":\"{:016x}\"}}", value.to_bits()),
        Tok::Complex { real, imag } => format!(
            "{{\"k\":\"Complex\",\"v\":[\"{:016x}\",\"{:016x}\"]}}",
            real.to_bits(),
            imag.to_bits()
        ),
        Tok::String { value, kind, triple_quoted } => format!(
            "{{\"k\":\"String\",\"value\":{},\"kind\":\"{:?}\",\"triple\":{}}}",
            jstr(value),
            kind,
            triple_quoted
        ),
        #[cfg(feature = "fulllexer")]
        Tok::Comment(c) => format!("{{\"k\":\"Comment\",\"v\":{}}}", jstr(c)),
        other => format!("{{\"k\":\"{:?}\"}}", other),
    }
}

pub fn fstring_err_json(e: &FStringErrorType) -> String {
    use FStringErrorType::*;
    match e {
        InvalidExpression(inner) => format!("{{\"f\":\"InvalidExpression\",\"inner\":{}}}", parse_err_type_json(inner)),
        MismatchedDelimiter(a, b) => format!("{{\"f\":\"MismatchedDelimiter\",\"a\":{},\"b\":{}}}", jstr(&a.to_string()), jstr(&b.to_string())),
        ExpressionCannotInclude(c) => format!("{{\"f\":\"ExpressionCannotInclude\",\"c\":{}}}", jstr(&c.to_string())),
        Unmatched(c) => format!("{{\"f\":\"Unmatched\",\"c\":{}}}", jstr(&c.to_string())),
        other => format!("{{\"f\":\"{:?}\"}}", other),
    }
}

pub fn lex_err_type_json(e: &LexicalErrorType) -> String {
    use LexicalErrorType::*;
    let msg = jstr(&e.to_string());
    match e {
        DuplicateArgumentError(s) => format!("{{\"t\":\"Lexical\",\"e\":\"DuplicateArgumentError\",\"arg\":{},\"msg\":{}}}", jstr(s), msg),
        DuplicateKeywordArgumentError(s) => {
            format!("{{\"t\":\"Lexical\",\"e\":\"DuplicateKeywordArgumentError\",\"arg\":{},\"msg\":{}}}", jstr(s), msg)
        }
        UnrecognizedToken { tok } => format!("{{\"t\":\"Lexical\",\"e\":\"UnrecognizedToken\",\"tok\":{},\"msg\":{}}}", jstr(&tok.to_string()), msg),
        FStringError(f) => format!("{{\"t\":\"Lexical\",\"e\":\"FStringError\",\"fs\":{},\"msg\":{}}}", fstring_err_json(f), msg),
        OtherError(s) => format!("{{\"t\":\"Lexical\",\"e\":\"OtherError\",\"text\":{},\"msg\":{}}}", jstr(s), msg),
        other => format!("{{\"t\":\"Lexical\",\"e\":\"{:?}\",\"msg\":{}}}", other, msg),
    }
}

pub fn parse_err_type_json(e: &ParseErrorType) -> String {
    // `msg` is the Display text with payloads rendered by Display (the two big-integer back
    // ends may Debug-print differently, which the properties allow).
    match e {
        ParseErrorType::Eof => "{\"t\":\"Eof\"}".to_string(),
        ParseErrorType::InvalidToken => "{\"t\":\"InvalidToken\"}".to_string(),
        ParseErrorType::ExtraToken(t) => format!("{{\"t\":\"ExtraToken\",\"tok\":{}}}", tok_json(t)),
        ParseErrorType::UnrecognizedToken(t, exp) => format!(
            "{{\"t\":\"UnrecognizedToken\",\"tok\":{},\"expected\":{},\"indent_err\":{},\"tab_err\":{}}}",
            tok_json(t),
            match exp {
                Some(s) => jstr(s),
                None => "null".to_string(),
            },
            e.is_indentation_error(),
            e.is_tab_error()
        ),
        ParseErrorType::Lexical(l) => {
            let mut s = lex_err_type_json(l);
            s.pop();
            s.push_str(&format!(",\"indent_err\":{},\"tab_err\":{}}}", e.is_indentation_error(), e.is_tab_error()));
            s
        }
    }
}
