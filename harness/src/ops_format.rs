//! rustpython_format ops: format spec (C18), printf-style (C19), str.format templates (C20).
use crate::dump::jstr;
use crate::{req_bool, req_bytes, req_f64, req_str};
use rustpython_ast::bigint::BigInt;
use rustpython_format::{CharLen, FormatSpec};
use serde_json::Value;
use std::ops::Deref;
use std::str::FromStr;

struct UStr<'a>(&'a str);
impl CharLen for UStr<'_> {
    fn char_len(&self) -> usize {
        self.0.chars().count()
    }
}
impl Deref for UStr<'_> {
    type Target = str;
    fn deref(&self) -> &str {
        self.0
    }
}

fn res<E: std::fmt::Debug>(r: Result<String, E>) -> String {
    match r {
        Ok(s) => format!("{{\"ok\":{}}}", jstr(&s)),
        Err(e) => format!("{{\"err\":{}}}", jstr(&format!("{:?}", e))),
    }
}

pub fn dispatch(op: &str, req: &Value) -> Option<String> {
    Some(match op {
        "format_spec" => {
            let spec = req_str(req, "spec");
            let parsed = if req_bool(req, "via_from_str") { FormatSpec::from_str(spec) } else { FormatSpec::parse(spec) };
            match parsed {
                Err(e) => format!("{{\"err\":{},\"stage\":\"parse\"}}", jstr(&format!("{:?}", e))),
                Ok(fs) => match req_str(req, "kind") {
                    "none" => "{\"parsed\":true}".to_string(),
                    "int" => {
                        let v = BigInt::from_str(req_str(req, "value")).unwrap();
                        res(fs.format_int(&v))
                    }
                    "float" => res(fs.format_float(req_f64(req, "value"))),
                    "bool" => res(fs.format_bool(req_bool(req, "value"))),
                    _ => res(fs.format_string(&UStr(req_str(req, "value")))),
                },
            }
        }
        _ => {
            let _ = req_bytes;
            if let Some(r) = crate::ops_format2::dispatch(op, req) {
                return Some(r);
            }
            return None;
        }
    })
}
