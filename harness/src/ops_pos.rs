//! Position primitives (C15): LineIndex / SourceCode, UniversalNewlineIterator, TextRange/TextSize.
use crate::dump::jstr;
use crate::{req_bool, req_str, req_u64};
use rustpython_parser_vendored::source_location::newlines::{find_newline, Line, NewlineWithTrailingNewline, StrExt, UniversalNewlineIterator};
use rustpython_parser_vendored::source_location::{LineIndex, OneIndexed, SourceCode};
use rustpython_parser_vendored::text_size::{TextLen, TextRange, TextSize};
use serde_json::Value;
use std::panic::{catch_unwind, AssertUnwindSafe};

fn rng(r: TextRange) -> String {
    format!("[{},{}]", u32::from(r.start()), u32::from(r.end()))
}
fn orng(r: Option<TextRange>) -> String {
    r.map(rng).unwrap_or_else(|| "null".into())
}
fn guard<F: FnOnce() -> String>(f: F) -> String {
    match catch_unwind(AssertUnwindSafe(f)) {
        Ok(s) => s,
        Err(_) => "\"panic\"".into(),
    }
}
fn line_json(l: &Line) -> String {
    format!(
        "{{\"full\":{},\"text\":{},\"start\":{},\"end\":{},\"full_end\":{},\"range\":{},\"full_range\":{},\"full_len\":{},\"deref\":{}}}",
        jstr(l.as_full_str()),
        jstr(l.as_str()),
        u32::from(l.start()),
        u32::from(l.end()),
        u32::from(l.full_end()),
        rng(l.range()),
        rng(l.full_range()),
        u32::from(l.full_text_len()),
        jstr(&**l)
    )
}
fn pair(v: &Value) -> (u32, u32) {
    (v[0].as_u64().unwrap_or(0) as u32, v[1].as_u64().unwrap_or(0) as u32)
}

pub fn dispatch(op: &str, req: &Value) -> Option<String> {
    Some(match op {
        "line_index" => {
            let text = req_str(req, "text");
            let index = LineIndex::from_source_text(text);
            let code = SourceCode::new(text, &index);
            let mut o = String::from("{\"locs\":[");
            let offs: Vec<u32> = req["offsets"].as_array().map(|a| a.iter().map(|x| x.as_u64().unwrap() as u32).collect()).unwrap_or_default();
            for (i, off) in offs.iter().enumerate() {
                if i > 0 {
                    o.push(',');
                }
                let off = TextSize::from(*off);
                o.push_str(&guard(|| {
                    let l1 = index.line_index(off);
                    let l2 = code.line_index(off);
                    let a = index.source_location(off, text);
                    let b = code.source_location(off);
                    format!(
                        "{{\"line\":{},\"line2\":{},\"row\":{},\"col\":{},\"row2\":{},\"col2\":{},\"up_to\":{},\"after\":{}}}",
                        l1.get(),
                        l2.get(),
                        a.row.get(),
                        a.column.get(),
                        b.row.get(),
                        b.column.get(),
                        code.up_to(off).len(),
                        code.after(off).len()
                    )
                }));
            }
            let count = code.line_count();
            o.push_str(&format!("],\"count\":{},\"starts\":[", count));
            for (i, s) in index.line_starts().iter().enumerate() {
                if i > 0 {
                    o.push(',');
                }
                o.push_str(&u32::from(*s).to_string());
            }
            o.push_str("],\"lines\":[");
            // lines 1..=count, plus count+1 (documented: start-of-line position after the last line)
            for n in 1..=(count + 1) {
                if n > 1 {
                    o.push(',');
                }
                let line = OneIndexed::new(n as u32).unwrap();
                o.push_str(&guard(|| {
                    format!(
                        "{{\"start\":{},\"end\":{},\"range\":{},\"text\":{}}}",
                        u32::from(code.line_start(line)),
                        u32::from(code.line_end(line)),
                        rng(code.line_range(line)),
                        jstr(code.line_text(line))
                    )
                }));
            }
            o.push_str("]}");
            o
        }
        "newline_iter" => {
            let text = req_str(req, "text");
            let base = TextSize::from(req_u64(req, "offset") as u32);
            let ops = req_str(req, "ops");
            let mut o = String::from("{\"items\":[");
            if req_bool(req, "trailing") {
                let mut it = if req_bool(req, "use_from") { NewlineWithTrailingNewline::from(text) } else { NewlineWithTrailingNewline::with_offset(text, base) };
                for (i, _) in ops.chars().enumerate() {
                    if i > 0 {
                        o.push(',');
                    }
                    o.push_str(&it.next().map(|l| line_json(&l)).unwrap_or_else(|| "null".into()));
                }
            } else {
                let mut it = if req_bool(req, "use_from") {
                    UniversalNewlineIterator::from(text)
                } else if req_bool(req, "use_ext") {
                    text.universal_newlines()
                } else {
                    UniversalNewlineIterator::with_offset(text, base)
                };
                for (i, c) in ops.chars().enumerate() {
                    if i > 0 {
                        o.push(',');
                    }
                    let item = match c {
                        'f' => it.next(),
                        'b' => it.next_back(),
                        _ => {
                            // 'l': consume with last()
                            let r = it.last();
                            o.push_str(&r.map(|l| line_json(&l)).unwrap_or_else(|| "null".into()));
                            break;
                        }
                    };
                    o.push_str(&item.map(|l| line_json(&l)).unwrap_or_else(|| "null".into()));
                }
            }
            o.push_str("],\"find_newline\":");
            match find_newline(text) {
                Some((p, le)) => o.push_str(&format!("[{},{},{},{},{}]", p, jstr(le.as_str()), le.len(), u32::from(le.text_len()), jstr(&le))),
                None => o.push_str("null"),
            }
            o.push('}');
            o
        }
        "range_ops" => {
            let (a0, a1) = pair(&req["a"]);
            let (b0, b1) = pair(&req["b"]);
            let off = TextSize::from(req_u64(req, "off") as u32);
            let text = req_str(req, "text");
            let mut o = String::from("{");
            o.push_str(&format!("\"new_a\":{}", guard(|| rng(TextRange::new(a0.into(), a1.into())))));
            o.push_str(&format!(",\"at\":{}", guard(|| rng(TextRange::at(a0.into(), a1.into())))));
            o.push_str(&format!(",\"empty\":{}", guard(|| rng(TextRange::empty(a0.into())))));
            o.push_str(&format!(",\"up_to\":{}", guard(|| rng(TextRange::up_to(a0.into())))));
            if a0 <= a1 && b0 <= b1 {
                let a = TextRange::new(a0.into(), a1.into());
                let b = TextRange::new(b0.into(), b1.into());
                o.push_str(&format!(",\"len\":{},\"is_empty\":{}", u32::from(a.len()), a.is_empty()));
                o.push_str(&format!(",\"contains\":{},\"contains_inclusive\":{}", a.contains(off), a.contains_inclusive(off)));
                o.push_str(&format!(",\"contains_range\":{}", a.contains_range(b)));
                o.push_str(&format!(",\"intersect\":{}", guard(|| orng(a.intersect(b)))));
                o.push_str(&format!(",\"cover\":{}", guard(|| rng(a.cover(b)))));
                o.push_str(&format!(",\"cover_offset\":{}", guard(|| rng(a.cover_offset(off)))));
                o.push_str(&format!(",\"checked_add\":{}", guard(|| orng(a.checked_add(off)))));
                o.push_str(&format!(",\"checked_sub\":{}", guard(|| orng(a.checked_sub(off)))));
                o.push_str(&format!(",\"add\":{}", guard(|| rng(a + off))));
                o.push_str(&format!(",\"sub\":{}", guard(|| rng(a - off))));
                // the by-reference forms of the operators (separate impls generated by a macro)
                o.push_str(&format!(",\"add_ref\":[{},{},{}]", guard(|| rng(&a + off)), guard(|| rng(a + &off)), guard(|| rng(&a + &off))));
                o.push_str(&format!(",\"sub_ref\":[{},{},{}]", guard(|| rng(&a - off)), guard(|| rng(a - &off)), guard(|| rng(&a - &off))));
                o.push_str(&format!(",\"slice_mut\":[{},{}]", guard(|| { let mut t = text.to_string(); let m: &mut str = &mut t[a]; jstr(m) }),
                    guard(|| { let mut t = text.to_string(); let m: &mut str = &mut t.as_mut_str()[a]; jstr(m) })));
                o.push_str(&format!(",\"add_assign\":{}", guard(|| { let mut x = a; x += off; rng(x) })));
                o.push_str(&format!(",\"sub_assign\":{}", guard(|| { let mut x = a; x -= off; rng(x) })));
                o.push_str(&format!(",\"ordering\":\"{:?}\"", a.ordering(b)));
                o.push_str(&format!(",\"sub_start\":{}", guard(|| rng(a.sub_start(off)))));
                o.push_str(&format!(",\"add_start\":{}", guard(|| rng(a.add_start(off)))));
                o.push_str(&format!(",\"sub_end\":{}", guard(|| rng(a.sub_end(off)))));
                o.push_str(&format!(",\"add_end\":{}", guard(|| rng(a.add_end(off)))));
                o.push_str(&format!(",\"eq\":{}", a == b));
                o.push_str(&format!(",\"slice\":{}", guard(|| jstr(&text[a]))));
                o.push_str(&format!(",\"slice_string\":{}", guard(|| jstr(&text.to_string()[a]))));
                {
                    // the std-facing view of the range (impl RangeBounds<TextSize>): what generic code and BTreeMap::range see
                    use std::ops::{Bound, RangeBounds};
                    let b2 = |b: Bound<&TextSize>| match b {
                        Bound::Included(x) => format!("[\"included\",{}]", u32::from(*x)),
                        Bound::Excluded(x) => format!("[\"excluded\",{}]", u32::from(*x)),
                        Bound::Unbounded => "[\"unbounded\",0]".to_string(),
                    };
                    o.push_str(&format!(",\"start_bound\":{},\"end_bound\":{}", b2(a.start_bound()), b2(a.end_bound())));
                    o.push_str(&format!(",\"range_bounds_contains\":{}", RangeBounds::contains(&a, &off)));
                    let set: std::collections::BTreeSet<TextSize> = [a0, a1, b0, b1, u32::from(off)].iter().map(|x| TextSize::from(*x)).collect();
                    let inside: Vec<String> = set.range(a).map(|x| u32::from(*x).to_string()).collect();
                    o.push_str(&format!(",\"btree_range\":[{}]", inside.join(",")));
                }
                let std_r: std::ops::Range<u32> = a.into();
                o.push_str(&format!(",\"into_range\":[{},{}]", std_r.start, std_r.end));
                o.push_str(&format!(",\"from_range\":{}", rng(TextRange::from(TextSize::from(a0)..TextSize::from(a1)))));
            }
            // TextSize arithmetic
            let x = TextSize::from(a0);
            let y = TextSize::from(b0);
            o.push_str(&format!(",\"ts_checked_add\":{}", x.checked_add(y).map(|v| u32::from(v).to_string()).unwrap_or("null".into())));
            o.push_str(&format!(",\"ts_checked_sub\":{}", x.checked_sub(y).map(|v| u32::from(v).to_string()).unwrap_or("null".into())));
            o.push_str(&format!(",\"ts_add\":{}", guard(|| u32::from(x + y).to_string())));
            o.push_str(&format!(",\"ts_sub\":{}", guard(|| u32::from(x - y).to_string())));
            o.push_str(&format!(",\"ts_add_ref\":[{},{},{}]", guard(|| u32::from(&x + y).to_string()), guard(|| u32::from(x + &y).to_string()), guard(|| u32::from(&x + &y).to_string())));
            o.push_str(&format!(",\"ts_sub_ref\":[{},{},{}]", guard(|| u32::from(&x - y).to_string()), guard(|| u32::from(x - &y).to_string()), guard(|| u32::from(&x - &y).to_string())));
            o.push_str(&format!(",\"ts_add_assign\":{}", guard(|| { let mut v = x; v += y; u32::from(v).to_string() })));
            o.push_str(&format!(",\"ts_sub_assign\":{}", guard(|| { let mut v = x; v -= y; u32::from(v).to_string() })));
            o.push_str(&format!(",\"ts_cmp\":\"{:?}\"", x.cmp(&y)));
            o.push_str(&format!(",\"ts_to_u32\":{},\"ts_to_usize\":{},\"ts_new\":{}", x.to_u32(), x.to_usize(), u32::from(TextSize::new(a0))));
            o.push_str(&format!(",\"ts_sum\":{}", guard(|| u32::from([x, y, off].iter().copied().sum::<TextSize>()).to_string())));
            o.push_str(&format!(",\"text_len\":{},\"ts_of\":{}", u32::from(text.text_len()), u32::from(TextSize::of(text))));
            o.push_str(&format!(
                ",\"char_lens\":[{}]",
                text.chars().map(|c| u32::from(c.text_len()).to_string()).collect::<Vec<_>>().join(",")
            ));
            o.push_str(&format!(",\"try_from_usize\":{}", TextSize::try_from(a0 as usize + b0 as usize).map(|v| u32::from(v).to_string()).unwrap_or("null".into())));
            o.push('}');
            o
        }
        _ => return None,
    })
}
