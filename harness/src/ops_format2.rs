//! printf-style templates (C19) and str.format templates / field names (C20).
use crate::dump::{hex, jstr};
use crate::{req_bytes, req_str};
use rustpython_ast::bigint::BigInt;
use rustpython_format::cformat::*;
use rustpython_format::{FieldName, FieldNamePart, FieldType, FormatPart, FormatString, FromTemplate};
use serde_json::Value;
use std::str::FromStr;

fn flags_str(f: CConversionFlags) -> String {
    let mut s = String::new();
    if f.contains(CConversionFlags::ALTERNATE_FORM) {
        s.push('#');
    }
    if f.contains(CConversionFlags::ZERO_PAD) {
        s.push('0');
    }
    if f.contains(CConversionFlags::LEFT_ADJUST) {
        s.push('-');
    }
    if f.contains(CConversionFlags::BLANK_SIGN) {
        s.push(' ');
    }
    if f.contains(CConversionFlags::SIGN_CHAR) {
        s.push('+');
    }
    s
}
fn quantity(q: &Option<CFormatQuantity>) -> String {
    match q {
        None => "null".into(),
        Some(CFormatQuantity::Amount(n)) => n.to_string(),
        Some(CFormatQuantity::FromValuesTuple) => "\"*\"".into(),
    }
}
fn precision(p: &Option<CFormatPrecision>) -> String {
    match p {
        None => "null".into(),
        Some(CFormatPrecision::Dot) => "\"dot\"".into(),
        Some(CFormatPrecision::Quantity(CFormatQuantity::Amount(n))) => n.to_string(),
        Some(CFormatPrecision::Quantity(CFormatQuantity::FromValuesTuple)) => "\"*\"".into(),
    }
}
fn spec_json(s: &CFormatSpec) -> String {
    format!(
        "{{\"key\":{},\"flags\":{},\"width\":{},\"prec\":{},\"type\":{}}}",
        s.mapping_key.as_ref().map(|k| jstr(k)).unwrap_or("null".into()),
        jstr(&flags_str(s.flags)),
        quantity(&s.min_field_width),
        precision(&s.precision),
        jstr(&s.format_char.to_string())
    )
}
fn err_json(t: &CFormatErrorType, index: usize) -> String {
    let (name, ch) = match t {
        CFormatErrorType::UnsupportedFormatChar(c) => ("UnsupportedFormatChar".to_string(), jstr(&c.to_string())),
        other => (format!("{:?}", other), "null".into()),
    };
    format!("{{\"err\":\"{}\",\"char\":{},\"index\":{}}}", name, ch, index)
}

/// Resolve `*` width / precision from the argument list the way a caller has to (the library only
/// records FromValuesTuple), then format one argument with the function matching the specifier type.
fn format_one(spec: &mut CFormatSpec, args: &mut std::slice::Iter<Value>, bytes_mode: bool) -> Result<Vec<u8>, String> {
    if let Some(CFormatQuantity::FromValuesTuple) = spec.min_field_width {
        let n = args.next().and_then(|a| a["v"].as_str().map(|s| s.to_string())).ok_or("missing * width")?;
        spec.min_field_width = Some(CFormatQuantity::Amount(n.parse::<usize>().map_err(|e| e.to_string())?));
    }
    if let Some(CFormatPrecision::Quantity(CFormatQuantity::FromValuesTuple)) = spec.precision {
        let n = args.next().and_then(|a| a["v"].as_str().map(|s| s.to_string())).ok_or("missing * precision")?;
        spec.precision = Some(CFormatPrecision::Quantity(CFormatQuantity::Amount(n.parse::<usize>().map_err(|e| e.to_string())?)));
    }
    let arg = args.next().ok_or("missing argument")?;
    let t = arg["t"].as_str().unwrap_or("");
    let v = arg["v"].as_str().unwrap_or("");
    Ok(match (&spec.format_type, t) {
        (CFormatType::Number(_), "int") => spec.format_number(&BigInt::from_str(v).map_err(|_| "bad int")?).into_bytes(),
        (CFormatType::Float(_), "float") => spec.format_float(f64::from_bits(u64::from_str_radix(v, 16).map_err(|e| e.to_string())?)).into_bytes(),
        (CFormatType::Character, "char") if !bytes_mode => spec.format_char(v.chars().next().ok_or("empty char")?).into_bytes(),
        (CFormatType::Character, "bytes") if bytes_mode => {
            // no dedicated entry point for %c in a bytes template: do what format_char does for text
            // (the value is one unit, an explicit precision is ignored) and pad with format_bytes
            spec.precision = Some(CFormatPrecision::Quantity(CFormatQuantity::Amount(1)));
            spec.format_bytes(&crate::req_bytes(arg, "v")[..1])
        }
        (CFormatType::String(_), "str") if !bytes_mode => spec.format_string(v.to_string()).into_bytes(),
        (CFormatType::String(_), "bytes") if bytes_mode => spec.format_bytes(&crate::req_bytes(arg, "v")),
        (ft, t) => return Err(format!("argument type {} does not fit {:?}", t, ft)),
    })
}

fn run_parts<S>(parts: &mut CFormatStrOrBytes<S>, req: &Value, bytes_mode: bool, lit: impl Fn(&S) -> (String, Vec<u8>)) -> String {
    let mut o = String::from("{\"parts\":[");
    let check = parts.check_specifiers();
    let empty = vec![];
    let args_v = req["args"].as_array().unwrap_or(&empty);
    let mut args = args_v.iter();
    let mut out: Vec<u8> = vec![];
    let mut fmt_err: Option<String> = None;
    let do_format = req["args"].is_array();
    for (i, (index, part)) in parts.iter_mut().enumerate() {
        if i > 0 {
            o.push(',');
        }
        match part {
            CFormatPart::Literal(l) => {
                let (j, b) = lit(l);
                o.push_str(&format!("{{\"at\":{},\"lit\":{}}}", index, j));
                out.extend_from_slice(&b);
            }
            CFormatPart::Spec(s) => {
                o.push_str(&format!("{{\"at\":{},\"spec\":{}}}", index, spec_json(s)));
                if do_format && fmt_err.is_none() {
                    match format_one(s, &mut args, bytes_mode) {
                        Ok(b) => out.extend_from_slice(&b),
                        Err(e) => fmt_err = Some(e),
                    }
                }
            }
        }
    }
    o.push_str(&format!(
        "],\"check_specifiers\":{}",
        match check {
            Some((n, m)) => format!("[{},{}]", n, m),
            None => "null".into(),
        }
    ));
    if do_format {
        match fmt_err {
            Some(e) => o.push_str(&format!(",\"format_error\":{}", jstr(&e))),
            None => {
                if bytes_mode {
                    o.push_str(&format!(",\"out_hex\":\"{}\"", hex(&out)));
                } else {
                    o.push_str(&format!(",\"out\":{}", jstr(&String::from_utf8(out).unwrap())));
                }
            }
        }
    }
    o.push('}');
    o
}

fn field_name_json(text: &str) -> String {
    match FieldName::parse(text) {
        Err(e) => format!("{{\"err\":\"{:?}\"}}", e),
        Ok(f) => {
            let head = match &f.field_type {
                FieldType::Auto => "{\"t\":\"auto\"}".to_string(),
                FieldType::Index(i) => format!("{{\"t\":\"index\",\"v\":\"{}\"}}", i),
                FieldType::Keyword(k) => format!("{{\"t\":\"keyword\",\"v\":{}}}", jstr(k)),
            };
            let parts: Vec<String> = f
                .parts
                .iter()
                .map(|p| match p {
                    FieldNamePart::Attribute(a) => format!("{{\"t\":\"attr\",\"v\":{}}}", jstr(a)),
                    FieldNamePart::Index(i) => format!("{{\"t\":\"index\",\"v\":\"{}\"}}", i),
                    FieldNamePart::StringIndex(s) => format!("{{\"t\":\"key\",\"v\":{}}}", jstr(s)),
                })
                .collect();
            format!("{{\"head\":{},\"parts\":[{}]}}", head, parts.join(","))
        }
    }
}

pub fn dispatch(op: &str, req: &Value) -> Option<String> {
    Some(match op {
        "cformat_str" => {
            let t = req_str(req, "template");
            match CFormatString::from_str(t) {
                Err(e) => {
                    let mut s = err_json(&e.typ, e.index);
                    s.pop();
                    s.push_str(&format!(",\"display\":{}}}", jstr(&e.to_string())));
                    s
                }
                Ok(mut parts) => run_parts(&mut parts, req, false, |l: &String| (jstr(l), l.clone().into_bytes())),
            }
        }
        "cformat_bytes" => {
            let t = req_bytes(req, "template");
            match CFormatBytes::parse_from_bytes(&t) {
                Err(e) => {
                    let mut s = err_json(&e.typ, e.index);
                    s.pop();
                    s.push_str(&format!(",\"display\":{}}}", jstr(&e.to_string())));
                    s
                }
                Ok(mut parts) => run_parts(&mut parts, req, true, |l: &Vec<u8>| (format!("\"{}\"", hex(l)), l.clone())),
            }
        }
        "cformat_spec" => match CFormatSpec::from_str(req_str(req, "spec")) {
            Err((t, i)) => err_json(&t, i),
            Ok(s) => format!("{{\"spec\":{}}}", spec_json(&s)),
        },
        "format_template" => {
            let t = req_str(req, "template");
            let r = if req["via_from_str"].as_bool().unwrap_or(false) { FormatString::from_str(t) } else { FormatString::from_str(t) };
            match r {
                Err(e) => format!("{{\"err\":\"{:?}\"}}", e),
                Ok(fs) => {
                    let parts: Vec<String> = fs
                        .format_parts
                        .iter()
                        .map(|p| match p {
                            FormatPart::Literal(l) => format!("{{\"lit\":{}}}", jstr(l)),
                            FormatPart::Field { field_name, conversion_spec, format_spec } => format!(
                                "{{\"field\":{},\"conv\":{},\"spec\":{}}}",
                                jstr(field_name),
                                conversion_spec.map(|c| jstr(&c.to_string())).unwrap_or("null".into()),
                                jstr(format_spec)
                            ),
                        })
                        .collect();
                    format!("{{\"parts\":[{}]}}", parts.join(","))
                }
            }
        }
        "field_name" => field_name_json(req_str(req, "name")),
        _ => return None,
    })
}
