use serde_json::Value;
pub fn dispatch(_op: &str, _req: &Value) -> Option<String> { None }
