//! parse / lex / typed-parser ops.
use crate::dump::{jstr, lex_err_type_json, parse_err_type_json, take_mismatches, tok_json, Dump};
use crate::{mode_of, req_bool, req_str, req_u64};
use rustpython_ast as ast;
use rustpython_parser::text_size::TextSize;
use rustpython_parser::{lexer, Mode, Parse, ParseError};
use serde_json::Value;

pub fn err_json(e: &ParseError) -> String {
    format!(
        "{{\"err\":{},\"offset\":{},\"display\":{}}}",
        parse_err_type_json(&e.error),
        u32::from(e.offset),
        jstr(&e.error.to_string())
    )
}

fn mism_suffix() -> String {
    let m = take_mismatches();
    if m.is_empty() {
        String::new()
    } else {
        format!(",\"ranged_mismatch\":{}", serde_json::to_string(&m).unwrap())
    }
}

thread_local! {
    /// set for requests that carry "brief": true - the tree is built and dropped, but not sent (totality checks feed inputs
    /// nested tens of thousands deep, whose JSON the driver's decoder could not read back)
    pub static BRIEF: std::cell::Cell<bool> = const { std::cell::Cell::new(false) };
}

pub fn ok_tree<T: Dump>(t: &T) -> String {
    let mut o = String::from("{\"ok\":");
    if BRIEF.with(|b| b.get()) {
        o.push_str("true");
    } else {
        t.dump(&mut o);
    }
    o.push_str(&mism_suffix());
    #[cfg(rustpython_parser_verif)]
    o.push_str(&crate::ops_parse::hook_suffix());
    o.push('}');
    o
}

#[cfg(rustpython_parser_verif)]
pub fn hook_suffix() -> String {
    let s = rustpython_parser::verif_hooks::snapshot();
    format!(",\"ticks\":{},\"reductions\":{}", s.ticks, s.reductions_total)
}
#[cfg(rustpython_parser_verif)]
fn hook_reset(fuel: u64) {
    rustpython_parser::verif_hooks::reset(fuel);
}
#[cfg(not(rustpython_parser_verif))]
fn hook_reset(_fuel: u64) {}

fn res<T: Dump>(r: Result<T, ParseError>) -> String {
    match r {
        Ok(t) => ok_tree(&t),
        Err(e) => {
            #[allow(unused_mut)]
            let mut s = err_json(&e);
            #[cfg(rustpython_parser_verif)]
            {
                s.pop();
                s.push_str(&hook_suffix());
                s.push('}');
            }
            s
        }
    }
}

pub fn lex_json(src: &str, mode: Mode, k: u32, limit: usize) -> String {
    let mut o = String::from("{\"toks\":[");
    let mut n = 0usize;
    let mut err = String::from("null");
    let mut truncated = false;
    for r in lexer::lex_starts_at(src, mode, TextSize::from(k)) {
        match r {
            Ok((t, range)) => {
                if n > 0 {
                    o.push(',');
                }
                o.push_str(&format!("[{},{},{}]", tok_json(&t), u32::from(range.start()), u32::from(range.end())));
                n += 1;
            }
            Err(e) => {
                err = format!("{{\"err\":{},\"offset\":{}}}", lex_err_type_json(&e.error), u32::from(e.location));
                break;
            }
        }
        if n >= limit {
            truncated = true;
            break;
        }
    }
    o.push_str(&format!("],\"n\":{},\"error\":{},\"truncated\":{}", n, err, truncated));
    #[cfg(rustpython_parser_verif)]
    o.push_str(&hook_suffix());
    o.push('}');
    o
}

macro_rules! typed {
    ($name:expr, $src:expr, $k:expr, $how:expr, $($id:ident),*) => {
        match $name {
            $( stringify!($id) => Some(typed_one::<ast::$id>($src, $k, $how)), )*
            _ => None,
        }
    };
}

fn typed_one<T: Parse + Dump>(src: &str, k: u32, how: &str) -> String {
    match how {
        "parse" => res(T::parse(src, "<v>")),
        "parse_without_path" => res(T::parse_without_path(src)),
        "tokens" => res(T::parse_tokens(T::lex_starts_at(src, TextSize::from(k)), "<v>")),
        _ => res(T::parse_starts_at(src, "<v>", TextSize::from(k))),
    }
}

pub fn dispatch(op: &str, req: &Value) -> Option<String> {
    let src = req_str(req, "src");
    BRIEF.with(|b| b.set(req_bool(req, "brief")));
    let k = req_u64(req, "k") as u32;
    let fuel = {
        let f = req_u64(req, "fuel");
        if f == 0 {
            u64::MAX
        } else {
            f
        }
    };
    Some(match op {
        "parse" => {
            hook_reset(fuel);
            let mode = mode_of(req_str(req, "mode"));
            let r = if req_bool(req, "no_offset_api") {
                rustpython_parser::parse(src, mode, "<v>")
            } else {
                rustpython_parser::parse_starts_at(src, mode, "<v>", TextSize::from(k))
            };
            res(r)
        }
        "parse_tokens" => {
            hook_reset(fuel);
            let mode = mode_of(req_str(req, "mode"));
            res(rustpython_parser::parse_tokens(lexer::lex_starts_at(src, mode, TextSize::from(k)), mode, "<v>"))
        }
        "lex" => {
            hook_reset(fuel);
            let mode = mode_of(req_str(req, "mode"));
            let limit = match req_u64(req, "limit") {
                0 => usize::MAX,
                n => n as usize,
            };
            lex_json(src, mode, k, limit)
        }
        "typed" => {
            hook_reset(fuel);
            let ty = req_str(req, "ty");
            let how = req_str(req, "how");
            let r = match ty {
                "Suite" => Some(typed_one::<ast::Suite>(src, k, how)),
                _ => typed!(
                    ty, src, k, how, Identifier, Constant, ModModule, ModExpression, ModInteractive, Stmt, Expr, StmtFunctionDef, StmtAsyncFunctionDef,
                    StmtClassDef, StmtReturn, StmtDelete, StmtAssign, StmtTypeAlias, StmtAugAssign, StmtAnnAssign, StmtFor,
                    StmtAsyncFor, StmtWhile, StmtIf, StmtWith, StmtAsyncWith, StmtMatch, StmtRaise, StmtTry, StmtTryStar,
                    StmtAssert, StmtImport, StmtImportFrom, StmtGlobal, StmtNonlocal, StmtExpr, StmtPass, StmtBreak,
                    StmtContinue, ExprBoolOp, ExprNamedExpr, ExprBinOp, ExprUnaryOp, ExprLambda, ExprIfExp, ExprDict, ExprSet,
                    ExprListComp, ExprSetComp, ExprDictComp, ExprGeneratorExp, ExprAwait, ExprYield, ExprYieldFrom,
                    ExprCompare, ExprCall, ExprFormattedValue, ExprJoinedStr, ExprConstant, ExprAttribute, ExprSubscript,
                    ExprStarred, ExprName, ExprList, ExprTuple, ExprSlice
                ),
            };
            r.unwrap_or_else(|| format!("{{\"bad_type\":{}}}", jstr(ty)))
        }
        "deprecated" => {
            hook_reset(fuel);
            #[allow(deprecated)]
            match req_str(req, "fn") {
                "parse_program" => res(rustpython_parser::parse_program(src, "<v>")),
                "parse_expression" => res(rustpython_parser::parse_expression(src, "<v>")),
                _ => res(rustpython_parser::parse_expression_starts_at(src, "<v>", TextSize::from(k))),
            }
        }
        #[cfg(rustpython_parser_verif)]
        "hook_hist" => {
            // which LR productions were reduced since the process started (generator-completeness evidence only)
            let h = rustpython_parser::verif_hooks::histogram();
            let hit: Vec<String> = h.iter().enumerate().filter(|(_, n)| **n > 0).map(|(i, _)| i.to_string()).collect();
            format!("{{\"hit\":[{}]}}", hit.join(","))
        }
        "mode_from_str" => match req_str(req, "s").parse::<Mode>() {
            Ok(m) => format!("{{\"ok\":\"{}\"}}", match m { Mode::Module => "Module", Mode::Interactive => "Interactive", Mode::Expression => "Expression" }),
            Err(e) => format!("{{\"err\":{}}}", jstr(&e.to_string())),
        },
        _ => return None,
    })
}
