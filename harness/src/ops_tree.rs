//! Tree ops: fold / visitor / optimizer (C12), locators (C13), unparse (C11), parameter forms (C14).
use crate::dump::{jstr, take_mismatches, Dump};
use crate::ops_parse::err_json;
use crate::{mode_of, req_str, req_u64};
use rustpython_ast as ast;
use rustpython_ast::fold::Fold;
use rustpython_ast::Visitor;
use rustpython_parser::text_size::{TextRange, TextSize};
use rustpython_parser::Parse;
use rustpython_parser_core::source_code::{LinearLocator, RandomLocator, SourceLocation};
use serde_json::Value;
use std::panic::{catch_unwind, AssertUnwindSafe};

// ---------------------------------------------------------------- tagging folder (C12 b)
#[derive(Clone, Copy, Debug, PartialEq)]
pub struct Tag(pub u32);
impl Dump for Tag {
    fn dump(&self, o: &mut String) {
        o.push_str(&format!("{{\"tag\":{}}}", self.0));
    }
}
macro_rules! chk_none {
    ($s:expr, $k:expr) => {};
}
macro_rules! chke_none {
    ($s:expr, $k:expr, $($v:ident),*) => {};
}
mod tagdump {
    use super::Tag;
    use crate::dump::Dump;
    use rustpython_ast as ast;
    hand_dump!(Tag);
    gen_dump!(Tag, chk_none, chke_none);
}

struct Tagger {
    will: u32,
    log: Vec<(u32, TextRange)>,
}
impl Fold<TextRange> for Tagger {
    type TargetU = Tag;
    type Error = std::convert::Infallible;
    type UserContext = u32;
    fn will_map_user(&mut self, _user: &TextRange) -> u32 {
        self.will += 1;
        self.will - 1
    }
    fn map_user(&mut self, user: TextRange, ctx: u32) -> Result<Tag, Self::Error> {
        self.log.push((ctx, user));
        Ok(Tag(ctx))
    }
}

struct Identity;
impl Fold<TextRange> for Identity {
    type TargetU = TextRange;
    type Error = std::convert::Infallible;
    type UserContext = ();
    fn will_map_user(&mut self, _user: &TextRange) {}
    fn map_user(&mut self, user: TextRange, _ctx: ()) -> Result<TextRange, Self::Error> {
        Ok(user)
    }
}

// ---------------------------------------------------------------- tracing visitor (C12 c)
struct Tracer {
    out: Vec<(&'static str, TextRange)>,
}
impl Visitor for Tracer {
    fn visit_stmt(&mut self, node: ast::Stmt) {
        self.out.push(("stmt", ast::Ranged::range(&node)));
        self.generic_visit_stmt(node)
    }
    fn visit_expr(&mut self, node: ast::Expr) {
        self.out.push(("expr", ast::Ranged::range(&node)));
        self.generic_visit_expr(node)
    }
    fn visit_pattern(&mut self, node: ast::Pattern) {
        self.out.push(("pattern", ast::Ranged::range(&node)));
        self.generic_visit_pattern(node)
    }
    fn visit_excepthandler(&mut self, node: ast::ExceptHandler) {
        self.out.push(("excepthandler", ast::Ranged::range(&node)));
        self.generic_visit_excepthandler(node)
    }
}

fn loc(l: SourceLocation) -> String {
    format!("[{},{}]", l.row.get(), l.column.get())
}

fn dump_s<T: Dump>(t: &T) -> String {
    let mut o = String::new();
    t.dump(&mut o);
    o
}

fn parse_mod(req: &Value) -> Result<ast::Mod, String> {
    let src = req_str(req, "src");
    let mode = mode_of(req_str(req, "mode"));
    let k = req_u64(req, "k") as u32;
    rustpython_parser::parse_starts_at(src, mode, "<v>", TextSize::from(k)).map_err(|e| err_json(&e))
}

fn py_args_json(p: &ast::PythonArguments) -> String {
    format!(
        "{{\"posonlyargs\":{},\"args\":{},\"vararg\":{},\"kwonlyargs\":{},\"kw_defaults\":{},\"kwarg\":{},\"defaults\":{}}}",
        dump_s(&p.posonlyargs),
        dump_s(&p.args),
        dump_s(&p.vararg),
        dump_s(&p.kwonlyargs),
        dump_s(&p.kw_defaults),
        dump_s(&p.kwarg),
        dump_s(&p.defaults)
    )
}

pub fn dispatch(op: &str, req: &Value) -> Option<String> {
    Some(match op {
        "tree_ops" => {
            // one parse, several consumers (fold identity, tagging fold, visitor trace, optimizer)
            let m = match parse_mod(req) {
                Ok(m) => m,
                Err(e) => return Some(e),
            };
            let mut o = String::from("{\"tree\":");
            o.push_str(&dump_s(&m));
            let _ = take_mismatches();
            // (a) identity fold
            let folded = Identity.fold_mod(m.clone()).unwrap();
            o.push_str(&format!(",\"identity_equal\":{}", folded == m));
            o.push_str(",\"identity_tree\":");
            o.push_str(&dump_s(&folded));
            // (b) tagging fold
            let mut tg = Tagger { will: 0, log: vec![] };
            let tagged = tg.fold_mod(m.clone()).unwrap();
            o.push_str(",\"tagged\":");
            o.push_str(&dump_s(&tagged));
            o.push_str(",\"tag_log\":[");
            for (i, (t, r)) in tg.log.iter().enumerate() {
                if i > 0 {
                    o.push(',');
                }
                o.push_str(&format!("[{},{},{}]", t, u32::from(r.start()), u32::from(r.end())));
            }
            o.push_str(&format!("],\"will_calls\":{}", tg.will));
            // (c) visitor
            let mut tr = Tracer { out: vec![] };
            match m.clone() {
                ast::Mod::Module(mm) => {
                    for s in mm.body {
                        tr.visit_stmt(s);
                    }
                }
                ast::Mod::Interactive(mm) => {
                    for s in mm.body {
                        tr.visit_stmt(s);
                    }
                }
                ast::Mod::Expression(me) => tr.visit_expr(*me.body),
                ast::Mod::FunctionType(_) => {}
            }
            o.push_str(",\"visited\":[");
            for (i, (k, r)) in tr.out.iter().enumerate() {
                if i > 0 {
                    o.push(',');
                }
                o.push_str(&format!("[\"{}\",{},{}]", k, u32::from(r.start()), u32::from(r.end())));
            }
            o.push(']');
            // (d) constant optimiser, once and twice
            let mut opt = ast::ConstantOptimizer::new();
            let o1 = Fold::<TextRange>::fold_mod(&mut opt, m.clone()).unwrap();
            let o2 = Fold::<TextRange>::fold_mod(&mut opt, o1.clone()).unwrap();
            o.push_str(",\"opt\":");
            o.push_str(&dump_s(&o1));
            o.push_str(&format!(",\"opt_idempotent\":{}", o1 == o2));
            o.push('}');
            o
        }
        "locate" => {
            let src = req_str(req, "src");
            let m = match parse_mod(req) {
                Ok(m) => m,
                Err(e) => {
                    // error offsets convert the same way
                    let mode = mode_of(req_str(req, "mode"));
                    let e1 = rustpython_parser::parse(src, mode, "<v>").err().unwrap();
                    let e2 = rustpython_parser::parse(src, mode, "<v>").err().unwrap();
                    let off = u32::from(e1.offset);
                    let r: rustpython_parser_core::source_code::LocatedError<rustpython_parser::ParseErrorType> =
                        RandomLocator::new(src).locate_error(e1);
                    let l = catch_unwind(AssertUnwindSafe(|| {
                        let l: rustpython_parser_core::source_code::LocatedError<rustpython_parser::ParseErrorType> =
                            LinearLocator::new(src).locate_error(e2);
                        l.location.map(loc).unwrap_or("null".into())
                    }));
                    let mut s = e;
                    s.pop();
                    s.push_str(&format!(
                        ",\"err_offset\":{},\"err_random\":{},\"err_linear\":{},\"python_location\":[{},{}]}}",
                        off,
                        r.location.map(loc).unwrap_or("null".into()),
                        match l {
                            Ok(s) => s,
                            Err(_) => "\"panic\"".into(),
                        },
                        r.python_location().0,
                        r.python_location().1
                    ));
                    return Some(s);
                }
            };
            let mut o = String::from("{\"tree\":");
            o.push_str(&dump_s(&m));
            let _ = take_mismatches();
            let random = RandomLocator::new(src).fold_mod(m.clone()).unwrap();
            o.push_str(",\"random\":");
            o.push_str(&dump_s(&random));
            let mm = take_mismatches();
            if !mm.is_empty() {
                o.push_str(&format!(",\"located_mismatch\":{}", serde_json::to_string(&mm).unwrap()));
            }
            let lin = catch_unwind(AssertUnwindSafe(|| {
                let t = LinearLocator::new(src).fold_mod(m.clone()).unwrap();
                dump_s(&t)
            }));
            o.push_str(",\"linear\":");
            match lin {
                Ok(s) => o.push_str(&s),
                Err(e) => {
                    let msg = e.downcast_ref::<String>().cloned().or(e.downcast_ref::<&str>().map(|s| s.to_string())).unwrap_or_default();
                    o.push_str(&format!("{{\"panic\":{}}}", jstr(&msg.chars().take(300).collect::<String>())));
                }
            }
            o.push('}');
            o
        }
        "locate_offsets" => {
            // raw locator calls on a monotone offset list (linear) / any list (random)
            let src = req_str(req, "src");
            let offs: Vec<u32> = req["offsets"].as_array().map(|a| a.iter().map(|x| x.as_u64().unwrap() as u32).collect()).unwrap_or_default();
            let mut rl = RandomLocator::new(src);
            let random: Vec<String> = offs.iter().map(|o| loc(rl.locate(TextSize::from(*o)))).collect();
            let lin = catch_unwind(AssertUnwindSafe(|| {
                let mut ll = LinearLocator::new(src);
                offs.iter().map(|o| loc(ll.locate(TextSize::from(*o)))).collect::<Vec<_>>()
            }));
            format!(
                "{{\"random\":[{}],\"linear\":{}}}",
                random.join(","),
                match lin {
                    Ok(v) => format!("[{}]", v.join(",")),
                    Err(_) => "\"panic\"".into(),
                }
            )
        }
        "unparse" => {
            let src = req_str(req, "src");
            let e = match ast::Expr::parse(src, "<v>") {
                Ok(e) => e,
                Err(e) => return Some(err_json(&e)),
            };
            let text = format!("{}", e);
            let mut o = format!("{{\"tree\":{},\"text\":{}", dump_s(&e), jstr(&text));
            match ast::Expr::parse(&text, "<v>") {
                Ok(e2) => {
                    let text2 = format!("{}", e2);
                    o.push_str(&format!(",\"reparse\":{},\"text2\":{}", dump_s(&e2), jstr(&text2)));
                }
                Err(err) => o.push_str(&format!(",\"reparse_err\":{}", err_json(&err))),
            }
            o.push('}');
            o
        }
        "args_roundtrip" => {
            let src = req_str(req, "src");
            let stmt = match ast::Stmt::parse(src, "<v>") {
                Ok(s) => s,
                Err(e) => return Some(err_json(&e)),
            };
            let args: ast::Arguments = match stmt {
                ast::Stmt::FunctionDef(f) => *f.args,
                ast::Stmt::AsyncFunctionDef(f) => *f.args,
                ast::Stmt::Expr(e) => match *e.value {
                    ast::Expr::Lambda(l) => *l.args,
                    _ => return Some("{\"bad\":\"not a function\"}".into()),
                },
                _ => return Some("{\"bad\":\"not a function\"}".into()),
            };
            let mut o = format!("{{\"orig\":{}", dump_s(&args));
            let to = args.to_python_arguments();
            let into = args.clone().into_python_arguments();
            let from: ast::PythonArguments = args.clone().into();
            o.push_str(&format!(",\"py_to\":{},\"py_into\":{},\"py_from\":{}", py_args_json(&to), py_args_json(&into), py_args_json(&from)));
            o.push_str(&format!(",\"to_eq_into\":{}", to == into));
            let defaults: Vec<String> = args.defaults().map(|e| dump_s(e)).collect();
            o.push_str(&format!(",\"defaults_iter\":[{}]", defaults.join(",")));
            let (kw_no, kw_with) = args.split_kwonlyargs();
            o.push_str(&format!(
                ",\"split_no_default\":[{}],\"split_with_default\":[{}]",
                kw_no.iter().map(|a| dump_s(*a)).collect::<Vec<_>>().join(","),
                kw_with.iter().map(|(a, d)| format!("[{},{}]", dump_s(*a), dump_s(*d))).collect::<Vec<_>>().join(",")
            ));
            let back = catch_unwind(AssertUnwindSafe(|| dump_s(&to.into_arguments())));
            o.push_str(",\"back\":");
            match back {
                Ok(s) => o.push_str(&s),
                Err(_) => o.push_str("\"panic\""),
            }
            o.push('}');
            o
        }
        _ => return None,
    })
}
