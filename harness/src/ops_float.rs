//! rustpython_literal::float ops (C17).
use crate::dump::jstr;
use crate::{opt_str, req_bool, req_bytes, req_f64, req_str, req_u64};
use rustpython_literal::float;
use rustpython_literal::format::Case;
use serde_json::Value;

fn bits(o: Option<f64>) -> String {
    match o {
        Some(f) => format!("\"{:016x}\"", f.to_bits()),
        None => "null".into(),
    }
}

pub fn dispatch(op: &str, req: &Value) -> Option<String> {
    let case = if req_bool(req, "upper") { Case::Upper } else { Case::Lower };
    Some(match op {
        "float_to_string" => format!("{{\"ok\":{}}}", jstr(&float::to_string(req_f64(req, "v")))),
        "float_to_hex" => format!("{{\"ok\":{}}}", jstr(&float::to_hex(req_f64(req, "v")))),
        "float_is_integer" => format!("{{\"ok\":{}}}", float::is_integer(req_f64(req, "v"))),
        "float_parse_str" => format!("{{\"ok\":{}}}", bits(float::parse_str(req_str(req, "s")))),
        "float_parse_bytes" => format!("{{\"ok\":{}}}", bits(float::parse_bytes(&req_bytes(req, "b")))),
        "float_from_hex" => format!("{{\"ok\":{}}}", bits(float::from_hex(req_str(req, "s")))),
        "float_format" => {
            let v = req_f64(req, "v");
            let p = req_u64(req, "prec") as usize;
            let alt = req_bool(req, "alt");
            let s = match req_str(req, "kind") {
                "f" => float::format_fixed(p, v, case, alt),
                "e" => float::format_exponent(p, v, case, alt),
                _ => float::format_general(p, v, case, alt, req_bool(req, "always_fract")),
            };
            format!("{{\"ok\":{}}}", jstr(&s))
        }
        _ => {
            let _ = opt_str;
            return None;
        }
    })
}
