//! repr of text and bytes (C16): rustpython_literal::escape + Display for Constant.
use crate::dump::jstr;
use crate::{req_bytes, req_str};
use rustpython_literal::escape::{AsciiEscape, Escape, Quote, UnicodeEscape};
use serde_json::Value;

fn q(qu: Quote) -> &'static str {
    match qu {
        Quote::Single => "'",
        Quote::Double => "\"",
    }
}
fn olen(l: Option<usize>) -> String {
    l.map(|v| v.to_string()).unwrap_or_else(|| "null".into())
}

pub fn dispatch(op: &str, req: &Value) -> Option<String> {
    Some(match op {
        "str_repr" => {
            let s = req_str(req, "s");
            let e = match req_str(req, "mode") {
                "pref_double" => UnicodeEscape::with_preferred_quote(s, Quote::Double),
                "forced_single" => UnicodeEscape::with_forced_quote(s, Quote::Single),
                "forced_double" => UnicodeEscape::with_forced_quote(s, Quote::Double),
                _ => UnicodeEscape::new_repr(s),
            };
            let disp = format!("{}", e.str_repr());
            let ts = e.str_repr().to_string();
            let mut body = String::new();
            e.write_body(&mut body).unwrap();
            #[cfg(feature = "treeops")]
            let cd = jstr(&format!("{}", rustpython_ast::Constant::Str(s.to_string())));
            #[cfg(not(feature = "treeops"))]
            let cd = "null".to_string();
            format!(
                "{{\"repr\":{},\"to_string\":{},\"body\":{},\"quote\":{},\"len\":{},\"changed\":{},\"source_len\":{},\"const_display\":{}}}",
                jstr(&disp),
                ts.map(|t| jstr(&t)).unwrap_or_else(|| "null".into()),
                jstr(&body),
                jstr(q(e.layout().quote)),
                olen(e.layout().len),
                e.changed(),
                e.source_len(),
                cd
            )
        }
        "bytes_repr" => {
            let b = req_bytes(req, "b");
            let e = match req_str(req, "mode") {
                "pref_double" => AsciiEscape::with_preferred_quote(&b, Quote::Double),
                "forced_single" => AsciiEscape::with_forced_quote(&b, Quote::Single),
                "forced_double" => AsciiEscape::with_forced_quote(&b, Quote::Double),
                m if m.starts_with("named:") => AsciiEscape::new(&b, AsciiEscape::named_repr_layout(&b, &m[6..])),
                _ => AsciiEscape::new_repr(&b),
            };
            let disp = format!("{}", e.bytes_repr());
            let ts = e.bytes_repr().to_string();
            let mut body = String::new();
            e.write_body(&mut body).unwrap();
            #[cfg(feature = "treeops")]
            let cd = jstr(&format!("{}", rustpython_ast::Constant::Bytes(b.clone())));
            #[cfg(not(feature = "treeops"))]
            let cd = "null".to_string();
            format!(
                "{{\"repr\":{},\"to_string\":{},\"body\":{},\"quote\":{},\"len\":{},\"changed\":{},\"source_len\":{},\"const_display\":{}}}",
                jstr(&disp),
                ts.map(|t| jstr(&t)).unwrap_or_else(|| "null".into()),
                jstr(&body),
                jstr(q(e.layout().quote)),
                olen(e.layout().len),
                e.changed(),
                e.source_len(),
                cd
            )
        }
        "is_printable_bulk" => {
            let s = req_str(req, "s");
            let v: Vec<&str> = s.chars().map(|c| if rustpython_literal::char::is_printable(c) { "true" } else { "false" }).collect();
            format!("{{\"ok\":[{}]}}", v.join(","))
        }
        _ => return None,
    })
}
