#!/usr/bin/env python3
"""Regenerate seeded/RESULTS.md from seeded/*/meta.json."""
import json, os, glob
VERIF = os.path.dirname(os.path.dirname(os.path.abspath(__file__)))
rows = []
for d in sorted(glob.glob(os.path.join(VERIF, 'seeded', 'C*-*'))):
    m = json.load(open(os.path.join(d, 'meta.json')))
    rows.append(m)
out = ['# Seeded changes and what catches them', '',
       'Each row: a change written by an independent sub-agent (only the property text was given; in round 2 also the code sites used by round 1, so that',
       'the new changes differ), confirmed in a scratch worktree (demo passes clean / fails patched, repository suite passes with the patch), then the',
       "property's **quick** check run against the patched copy (`selftest/confirm_seed.sh`; `selftest/run_all_seeds.sh` re-runs them all).", '',
       '| seed | round | change | quick check exit | violation signature | history |', '|---|---|---|---|---|---|']
for m in rows:
    out.append('| %s | %s | %s | %s | %s | %s |' % (m['id'], m.get('round', 1), m['summary'].replace('|', '/')[:150], m['check_run']['exit'],
                                                 m['check_run'].get('violation_signature') or '', ((m.get('history') or '') + (' NEUTRALISED BY FIX ' + m['neutralised_by_fix'] if m.get('neutralised_by_fix') else '')).replace('|', '/')))
n = len(rows)
det = sum(1 for m in rows if m.get('detected_by_quick_check'))
firstmiss = [m['id'] for m in rows if m.get('history') and ('first run exit 0' in m['history'] or 'missed by the first' in m['history'] or 'first run exit 0' in m['history'])]
out += ['', '%d of %d seeded changes are detected by the quick tier of their property. %d of them were missed by the first version of the check that met them '
        '(%s) and are caught since the check was strengthened as described in the history column; none was dropped.' % (det, n, len(firstmiss), ', '.join(firstmiss)),
        '', 'The shrunk failing case of every seed is kept under regress/<ID>/ and replayed first in every run (it passes on the unchanged tree).', '']
note = os.path.join(VERIF, 'seeded', 'rerun_note.md')
if os.path.exists(note):
    out += [open(note).read().strip(), '']
open(os.path.join(VERIF, 'seeded', 'RESULTS.md'), 'w').write('\n'.join(out))
print(det, n, firstmiss)
