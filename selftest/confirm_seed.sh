#!/bin/bash
# confirm_seed.sh <inbox-dir> <ID> <k> [check-ids...]
# Confirms a seeded change in a scratch worktree (outside /repo and /verif):
#   1. demo passes on the clean tree, 2. patch applies, 3. repository suite passes with it,
#   4. demo fails with it; then runs the listed checks (default: the ID's own) against the patched
#   worktree via VERIF_REPO and reports their exit codes. The worktree is removed afterwards.
set -u
# one confirmation at a time: they share a cargo target directory
exec 9>/tmp/seed-confirm.lock; flock 9
INBOX=$1; ID=$2; K=$3; shift 3
CHECKS=${@:-$ID}
WT=/tmp/wt-confirm-$ID-$K
DIFF=$INBOX/$ID-$K.diff; DEMO=$INBOX/$ID-$K-demo.rs
git -C /repo worktree remove --force $WT >/dev/null 2>&1
git -C /repo worktree add -q --detach $WT HEAD || exit 3
CRATE=$(grep -m1 "cargo test" $DEMO | sed -E 's/.* -p ([A-Za-z0-9_-]+).*/\1/')
TEST=$(grep -m1 "cargo test" $DEMO | sed -E 's/.*--test ([A-Za-z0-9_]+).*/\1/')
case $CRATE in
  rustpython-parser) DIR=parser;; rustpython-ast) DIR=ast;; rustpython-format) DIR=format;; rustpython-literal) DIR=literal;;
  rustpython-parser-core) DIR=core;; rustpython-parser-vendored) DIR=vendored;; *) echo "unknown crate $CRATE"; exit 3;;
esac
export CARGO_TARGET_DIR=/tmp/seed-target
mkdir -p $WT/$DIR/tests && cp $DEMO $WT/$DIR/tests/$TEST.rs
cd $WT
# the demo's own cargo command (it may need extra --features)
DEMOCMD=$(grep -o "cargo test.*--features.*" $DEMO | head -1 | sed 's/[` ]*$//')
[ -z "$DEMOCMD" ] && DEMOCMD=$(grep -m1 -o "cargo test.*" $DEMO | sed 's/[` ]*$//')
case "$DEMOCMD" in *"--test $TEST"*) ;; *) DEMOCMD="cargo test --offline -p $CRATE --test $TEST";; esac
$DEMOCMD >/tmp/seed-$ID-$K.clean.log 2>&1; CLEAN=$?
git apply $DIFF || { echo "RESULT $ID-$K patch does not apply"; exit 3; }
$DEMOCMD >/tmp/seed-$ID-$K.patched.log 2>&1; PATCHED=$?
rm -f $WT/$DIR/tests/$TEST.rs; rmdir $WT/$DIR/tests 2>/dev/null
cargo test -q --workspace --no-fail-fast --offline >/tmp/seed-$ID-$K.suite.log 2>&1; SUITE=$?
echo "RESULT $ID-$K demo_clean_exit=$CLEAN demo_patched_exit=$PATCHED suite_with_patch_exit=$SUITE"
cd /verif
for C in $CHECKS; do
  VERIF_REPO=$WT ./check $C quick > /tmp/seed-$ID-$K.check-$C.log 2>&1; RC=$?
  echo "CHECK $C on $ID-$K exit=$RC $(grep -m1 -A1 '^VIOLATION' /tmp/seed-$ID-$K.check-$C.log | tr '\n' ' ' | cut -c1-260)"
done
git -C /repo worktree remove --force $WT
rm -rf /verif/target/alt-$(python3 -c "import hashlib,os;print(hashlib.sha1(os.path.realpath('$WT').encode()).hexdigest()[:10])")
