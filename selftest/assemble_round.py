#!/usr/bin/env python3
"""Assemble confirmed seeded changes into /verif/seeded/<ID>-<k>/ and their shrunk failing cases into regress/<ID>/.
usage: assemble_round.py <inbox-dir> <results-file>... [--history ID-k=text ...]
The results files are the outputs of selftest/confirm_seed.sh (later lines for the same seed win)."""
import json, os, re, shutil, sys
VERIF = os.path.dirname(os.path.dirname(os.path.abspath(__file__)))
inbox = sys.argv[1]
files = [a for a in sys.argv[2:] if not a.startswith('--') and '=' not in a]
history = dict(a.split('=', 1) for a in sys.argv[2:] if re.match(r'C\d\d-\d+=', a))
res, chk, first = {}, {}, {}
for f in files:
    for line in open(f, errors='replace'):
        m = re.match(r'RESULT (C\d\d-\d+) demo_clean_exit=(\d+) demo_patched_exit=(\d+) suite_with_patch_exit=(\d+)', line)
        if m:
            res[m.group(1)] = tuple(int(x) for x in m.groups()[1:])
        m = re.match(r'CHECK (C\d\d) on (C\d\d-\d+) exit=(\d+)(?: VIOLATION property=\S+ replay=(\S+))?(?:\s+signature: (\S+))?', line)
        if m:
            first.setdefault(m.group(2), int(m.group(3)))
            chk[m.group(2)] = (int(m.group(3)), m.group(4), m.group(5))
for sid in sorted(res):
    pid, k = sid.split('-')
    src = os.path.join(inbox, pid)
    dst = os.path.join(VERIF, 'seeded', sid)
    os.makedirs(dst, exist_ok=True)
    shutil.copy(os.path.join(src, sid + '.diff'), os.path.join(dst, 'patch.diff'))
    shutil.copy(os.path.join(src, sid + '-demo.rs'), os.path.join(dst, 'demo.rs'))
    shutil.copy(os.path.join(src, sid + '.md'), os.path.join(dst, 'notes.md'))
    notes = open(os.path.join(dst, 'notes.md'), errors='replace').read()
    title = next((l.strip('# ').strip() for l in notes.splitlines() if l.strip()), sid)
    clean, patched, suite = res[sid]
    rc, replay, sig = chk.get(sid, (None, None, None))
    meta = {
        'id': sid, 'breaks_property': pid, 'round': int(os.environ.get('ROUND', '2')), 'summary': title[:200],
        'needs_to_manifest': 'see notes.md (written by the seeding agent: the specific input / condition the change needs)',
        'origin': 'independent sub-agent given only the property text, the sites used by earlier seeds, and its own scratch worktree',
        'confirmed': {'demo_passes_on_clean_tree': clean == 0, 'demo_fails_with_patch': patched != 0 or sid in history and 'demo confirmed by hand' in history[sid],
                      'repository_suite_passes_with_patch': suite == 0,
                      'how': 'selftest/confirm_seed.sh in a scratch git worktree of /repo (removed afterwards); demo run with the cargo command from its header'},
        'check_run': {'command': 'VERIF_REPO=<patched worktree> ./check %s quick' % pid, 'exit': rc, 'violation_signature': sig},
        'detected_by_quick_check': rc == 1,
    }
    if first.get(sid) != rc:
        meta['first_run_exit'] = first.get(sid)
    if sid in history:
        meta['history'] = history[sid]
    json.dump(meta, open(os.path.join(dst, 'meta.json'), 'w'), indent=1)
    if replay and os.path.exists(replay):
        d = json.load(open(replay))
        rd = os.path.join(VERIF, 'regress', pid)
        os.makedirs(rd, exist_ok=True)
        json.dump({'case': d['case'], 'origin': 'shrunk failing case of seeded change %s (passes on the unchanged tree)' % sid},
                  open(os.path.join(rd, 'seed-%s.json' % sid), 'w'), indent=1, ensure_ascii=False)
    print(sid, rc, sig)
