#!/bin/bash
# Development aid (not a registered check): which lines of the repository do the quick tiers execute?
# Builds the adapter with -C instrument-coverage (nightly, for its llvm-tools) against a scratch worktree of /repo, runs every
# quick tier with a reduced budget and prints the uncovered regions of the files the properties are anchored in.
# Usage: selftest/coverage.sh [budget|full] [ids...] ; output: /tmp/verif-cov/report.txt, /tmp/verif-cov/show/<file>.txt ; cleans its worktree and build.
B=${1:-8000}; shift; IDS=${@:-$(seq -f 'C%02g' 1 20)}
cd "$(dirname "$0")/.."
WT=/tmp/verif-cov-wt; OUT=/tmp/verif-cov
TOOLS=$(dirname $(find /root/.rustup/toolchains/nightly-*/lib/rustlib -name llvm-profdata | head -1))
rm -rf $OUT; mkdir -p $OUT/raw
git -C /repo worktree remove --force $WT >/dev/null 2>&1
git -C /repo worktree add -q --detach $WT HEAD || exit 2
export VERIF_REPO=$WT VERIF_EXTRA_RUSTFLAGS='-C instrument-coverage' VERIF_CARGO_TOOLCHAIN=+nightly LLVM_PROFILE_FILE=$OUT/raw/%p-%m.profraw VERIF_NO_REGRESS=
[ "$B" = full ] || export VERIF_BUDGET=$B
for p in $IDS; do ./check $p quick 2>&1 | grep -E "quick:|VIOLATION|INCONCL"; done
TAG=$(python3 -c "import hashlib,os;print(hashlib.sha1(os.path.realpath('$WT').encode()).hexdigest()[:10])")
$TOOLS/llvm-profdata merge --failure-mode=all -sparse $OUT/raw/*.profraw -o $OUT/all.profdata
OBJS=""; for c in A B C D; do [ -f target/alt-$TAG/$c/release/sut ] && OBJS="$OBJS -object target/alt-$TAG/$c/release/sut"; done
OBJS=${OBJS/-object /}
$TOOLS/llvm-cov report $OBJS -instr-profile=$OUT/all.profdata --ignore-filename-regex='(\.cargo|rustc|harness|python\.rs)' > $OUT/report.txt 2>&1
mkdir -p $OUT/show
$TOOLS/llvm-cov show $OBJS -instr-profile=$OUT/all.profdata --ignore-filename-regex='(\.cargo|rustc|harness|python\.rs)' --show-line-counts-or-regions -format=text -output-dir=$OUT/show >/dev/null 2>&1
rm -rf $OUT/raw
git -C /repo worktree remove --force $WT; rm -rf target/alt-$TAG
cat $OUT/report.txt | cut -c1-160
