#!/bin/bash
# Re-run every confirmed seeded change under /verif/seeded against the quick check of its property.
# Each one is applied to a scratch worktree of /repo (never to /repo itself) and the worktree is removed afterwards.
# Usage: selftest/run_all_seeds.sh [seed-id ...]      output: one line per seed, "DETECTED" or "MISSED"
# The saved shrunk cases (regress/) are switched off, so that detection is by generation, not by memory.
export VERIF_NO_REGRESS=1
cd "$(dirname "$0")/.."
IDS=${@:-$(ls seeded | grep -E '^C[0-9]+-[0-9]+$')}
exec 9>/tmp/seed-confirm.lock; flock 9
for S in $IDS; do
  P=${S%-*}
  if grep -q neutralised_by_fix seeded/$S/meta.json 2>/dev/null; then echo "$S NEUTRALISED by a later fix of the tree (see its meta.json): skipped"; continue; fi
  WT=/tmp/wt-seedrun-$S
  git -C /repo worktree remove --force $WT >/dev/null 2>&1
  git -C /repo worktree add -q --detach $WT HEAD || { echo "$S worktree failed"; continue; }
  if ! git -C $WT apply /verif/seeded/$S/patch.diff 2>/dev/null; then echo "$S PATCH-DOES-NOT-APPLY"; git -C /repo worktree remove --force $WT; continue; fi
  VERIF_REPO=$WT ./check $P quick > /tmp/seedrun-$S.log 2>&1; RC=$?
  if [ $RC -eq 1 ]; then echo "$S DETECTED $(grep -m1 'signature:' /tmp/seedrun-$S.log | cut -c1-120)"; else echo "$S MISSED (exit $RC)"; fi
  git -C /repo worktree remove --force $WT
  rm -rf /verif/target/alt-$(python3 -c "import hashlib,os;print(hashlib.sha1(os.path.realpath('$WT').encode()).hexdigest()[:10])")
done
