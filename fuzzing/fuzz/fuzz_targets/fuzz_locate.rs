#![no_main]
// C13: row/column locations. In-target oracle: the random-access locator agrees with a naive model (count universal
// line breaks, count characters since the line start, a leading BOM is no column) at every node boundary and at the
// error offset; folding the tree with the linear locator gives the same located tree as the random-access locator
// (its debug self-check is on in this build). Inputs inside listed findings are only required to be handled by the
// random-access locator: C13-F1 (class keyword before a later base), C13-F2/F3 (f-strings).
mod common;
use libfuzzer_sys::fuzz_target;
use rustpython_ast::fold::Fold;
use rustpython_ast::{self as ast, Ranged};
use rustpython_parser::parse;
use rustpython_parser::source_code::{LinearLocator, RandomLocator};
use rustpython_parser::text_size::{TextRange, TextSize};

fn naive(src: &str, off: usize) -> (u32, u32) {
    let b = src.as_bytes();
    let (mut row, mut start, mut i) = (1u32, 0usize, 0usize);
    while i < off {
        if b[i] == b'\n' || (b[i] == b'\r' && !(i + 1 < b.len() && b[i + 1] == b'\n')) {
            row += 1;
            start = i + 1;
        }
        i += 1;
    }
    // an offset between the CR and the LF of one CRLF belongs to the line that the pair ends
    let mut s = start;
    if row == 1 && src.starts_with('\u{feff}') && off >= 3 {
        s = 3;
    }
    (row, src[s..off].chars().count() as u32 + 1)
}

struct Scan<'a> {
    src: &'a str,
    random: RandomLocator<'a>,
    has_fstring: bool,
    class_kw_before_base: bool,
}
impl<'a> Fold<TextRange> for Scan<'a> {
    type TargetU = TextRange;
    type Error = std::convert::Infallible;
    type UserContext = ();
    fn will_map_user(&mut self, _user: &TextRange) {}
    fn map_user(&mut self, user: TextRange, _c: ()) -> Result<TextRange, Self::Error> {
        for o in [user.start(), user.end()] {
            let u = usize::from(o);
            if u <= self.src.len() && self.src.is_char_boundary(u) {
                let got = self.random.locate(o);
                let want = naive(self.src, u);
                assert!((got.row.get(), got.column.get()) == want, "C13 random-access locator: offset {} of {:?}: got {:?}, naive model {:?}", u, self.src, got, want);
            }
        }
        Ok(user)
    }
    fn fold_expr_joined_str(&mut self, node: ast::ExprJoinedStr) -> Result<ast::ExprJoinedStr, Self::Error> {
        self.has_fstring = true;
        ast::fold::fold_expr_joined_str(self, node)
    }
    fn fold_stmt_class_def(&mut self, node: ast::StmtClassDef) -> Result<ast::StmtClassDef, Self::Error> {
        if let Some(k) = node.keywords.iter().map(|k| k.range().start()).min() {
            if node.bases.iter().any(|b| b.range().start() > k) {
                self.class_kw_before_base = true;
            }
        }
        ast::fold::fold_stmt_class_def(self, node)
    }
}

fuzz_target!(|data: &[u8]| {
    let Some(inp) = common::decode(data) else { return };
    if common::too_deep(&inp.text) {
        return;
    }
    let src = inp.text.as_str();
    match parse(src, inp.mode, "<fuzz>") {
        Err(e) => {
            let u = usize::from(e.offset);
            if u <= src.len() && src.is_char_boundary(u) {
                let want = naive(src, u);
                let r = RandomLocator::new(src).locate(e.offset);
                assert!((r.row.get(), r.column.get()) == want, "C13 error offset {} of {:?}: random-access {:?}, naive {:?}", u, src, r, want);
                let l = LinearLocator::new(src).locate(e.offset);
                assert!((l.row.get(), l.column.get()) == want, "C13 error offset {} of {:?}: linear {:?}, naive {:?}", u, src, l, want);
            }
        }
        Ok(m) => {
            let mut scan = Scan { src, random: RandomLocator::new(src), has_fstring: false, class_kw_before_base: false };
            let m = scan.fold_mod(m).unwrap();
            if scan.has_fstring || scan.class_kw_before_base {
                return;
            }
            let a = RandomLocator::new(src).fold_mod(m.clone()).unwrap();
            let b = LinearLocator::new(src).fold_mod(m).unwrap();
            assert!(format!("{:?}", a) == format!("{:?}", b), "C13 linear and random-access locators disagree on {:?}", src);
        }
    }
    let _ = TextSize::from(0);
});
