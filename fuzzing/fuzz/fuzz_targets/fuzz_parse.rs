#![no_main]
// C03: totality. In-target oracle: no panic (libFuzzer + overflow checks), bounded token stream, loop fuel
// (with --cfg rustpython_parser_verif), error offsets inside [k, k+len] on a character boundary.
mod common;
use libfuzzer_sys::fuzz_target;
use rustpython_parser::text_size::TextSize;
use rustpython_parser::{lexer, parse_starts_at, parse_tokens};

fn check_offset(name: &str, o: u32, k: u32, text: &str) {
    let rel = o.checked_sub(k);
    let ok = matches!(rel, Some(r) if (r as usize) <= text.len() && text.is_char_boundary(r as usize));
    if !ok {
        // listed finding: before any real token the start offset is lost (offset 0 while k > 0)
        if o == 0 && k > 0 && common::no_real_token(text) {
            return;
        }
        // listed finding C03-F2: an error raised inside a string literal is located in the token's value, where every CRLF
        // is folded to LF, so the offset is short by up to one byte per CRLF in front of it
        if let Some(r) = rel {
            let n = text.matches("\r\n").count();
            if (1..=n).any(|d| (r as usize + d) <= text.len() && text.is_char_boundary(r as usize + d)) {
                return;
            }
        }
        panic!("C03 {name}: error offset {o} not on a character boundary inside [{k}, {}]", k as usize + text.len());
    }
}

fuzz_target!(|data: &[u8]| {
    let Some(inp) = common::decode(data) else { return };
    let k = TextSize::from(inp.offset);
    #[cfg(rustpython_parser_verif)]
    rustpython_parser::verif_hooks::reset(24 * (inp.text.len() as u64 + 16));
    let limit = 2 * inp.text.chars().count() + 4;
    let mut n = 0usize;
    for r in lexer::lex_starts_at(&inp.text, inp.mode, k) {
        n += 1;
        assert!(n <= limit + 1, "C03 token stream longer than 2*chars+4");
        match r {
            Ok((_, range)) => {
                assert!(range.start() >= k && u32::from(range.end()) as u64 <= inp.offset as u64 + inp.text.len() as u64, "C03 token range outside input");
            }
            Err(e) => {
                check_offset("lex", e.location.into(), inp.offset, &inp.text);
                break;
            }
        }
    }
    #[cfg(rustpython_parser_verif)]
    rustpython_parser::verif_hooks::reset(24 * (inp.text.len() as u64 + 16));
    if let Err(e) = parse_starts_at(&inp.text, inp.mode, "<fuzz>", k) {
        check_offset("parse", e.offset.into(), inp.offset, &inp.text);
    }
    #[cfg(rustpython_parser_verif)]
    {
        let s = rustpython_parser::verif_hooks::snapshot();
        assert!(s.reductions_total <= 110 * (inp.text.len() as u64 + 16), "C03 LR reductions not linear in the input size");
        rustpython_parser::verif_hooks::reset(24 * (inp.text.len() as u64 + 16));
    }
    if let Err(e) = parse_tokens(lexer::lex_starts_at(&inp.text, inp.mode, k), inp.mode, "<fuzz>") {
        check_offset("parse_tokens", e.offset.into(), inp.offset, &inp.text);
    }
});
