#![no_main]
// C14: parameter-list conversions. In-target oracle, for every parameter list of the parsed input: the three ways to
// the Python form agree; the Python form keeps every positional parameter in order with the defaults of the trailing
// ones, and lists keyword-only parameters without default first; converting back returns every parameter with exactly
// its own default (positional order unchanged, keyword-only parameters as a multiset).
mod common;
use libfuzzer_sys::fuzz_target;
use rustpython_ast::{self as ast, Visitor};
use rustpython_parser::parse;

#[derive(Default)]
struct Collect {
    lists: Vec<ast::Arguments>,
}
impl Visitor for Collect {
    fn visit_arguments(&mut self, node: ast::Arguments) {
        self.lists.push(node.clone());
        self.generic_visit_arguments(node)
    }
}

fn check(args: &ast::Arguments, text: &str) {
    let to = args.to_python_arguments();
    let into = args.clone().into_python_arguments();
    let from: ast::PythonArguments = args.clone().into();
    assert!(to == into && into == from, "C14 to/into/From disagree on a parameter list of {:?}", text);
    // positional part
    let pos: Vec<&ast::ArgWithDefault> = args.posonlyargs.iter().chain(args.args.iter()).collect();
    assert!(to.posonlyargs.len() == args.posonlyargs.len() && to.args.len() == args.args.len(), "C14 positional counts change: {:?}", text);
    for (a, b) in pos.iter().zip(to.posonlyargs.iter().chain(to.args.iter())) {
        assert!(a.def == *b, "C14 positional parameter changed or moved: {:?}", text);
    }
    let want_defaults: Vec<&ast::Expr> = pos.iter().filter_map(|a| a.default.as_deref()).collect();
    assert!(want_defaults.len() == to.defaults.len() && want_defaults.iter().zip(&to.defaults).all(|(a, b)| **a == *b), "C14 positional defaults: {:?}", text);
    let it: Vec<&ast::Expr> = args.defaults().collect();
    assert!(it == want_defaults, "C14 defaults() iterator: {:?}", text);
    // keyword-only part: no-default first, then those with defaults, each group in source order
    let no: Vec<&ast::ArgWithDefault> = args.kwonlyargs.iter().filter(|a| a.default.is_none()).collect();
    let with: Vec<&ast::ArgWithDefault> = args.kwonlyargs.iter().filter(|a| a.default.is_some()).collect();
    assert!(to.kwonlyargs.len() == args.kwonlyargs.len() && to.kw_defaults.len() == with.len(), "C14 keyword-only counts: {:?}", text);
    for (a, b) in no.iter().chain(with.iter()).zip(to.kwonlyargs.iter()) {
        assert!(a.def == *b, "C14 keyword-only order in the Python form: {:?}", text);
    }
    for (a, b) in with.iter().zip(to.kw_defaults.iter()) {
        assert!(a.default.as_deref() == Some(b), "C14 keyword-only defaults in the Python form: {:?}", text);
    }
    assert!(to.vararg == args.vararg && to.kwarg == args.kwarg, "C14 variadic parameters: {:?}", text);
    // and back
    let back = to.into_arguments();
    let strip = |a: &ast::ArgWithDefault| (a.def.clone(), a.default.clone());
    assert!(
        back.posonlyargs.iter().map(strip).collect::<Vec<_>>() == args.posonlyargs.iter().map(strip).collect::<Vec<_>>()
            && back.args.iter().map(strip).collect::<Vec<_>>() == args.args.iter().map(strip).collect::<Vec<_>>(),
        "C14 round trip changes a positional parameter or its default: {:?}",
        text
    );
    assert!(back.vararg == args.vararg && back.kwarg == args.kwarg, "C14 round trip changes variadic parameters: {:?}", text);
    let mut k1: Vec<String> = back.kwonlyargs.iter().map(|a| format!("{:?}", strip(a))).collect();
    let mut k2: Vec<String> = args.kwonlyargs.iter().map(|a| format!("{:?}", strip(a))).collect();
    k1.sort();
    k2.sort();
    assert!(k1 == k2, "C14 round trip changes a keyword-only parameter or its default: {:?}", text);
}

fuzz_target!(|data: &[u8]| {
    let Some(inp) = common::decode(data) else { return };
    if common::too_deep(&inp.text) {
        return;
    }
    let Ok(m) = parse(&inp.text, inp.mode, "<fuzz>") else { return };
    let mut c = Collect::default();
    match m {
        ast::Mod::Module(x) => x.body.into_iter().for_each(|s| c.visit_stmt(s)),
        ast::Mod::Interactive(x) => x.body.into_iter().for_each(|s| c.visit_stmt(s)),
        ast::Mod::Expression(x) => c.visit_expr(*x.body),
        ast::Mod::FunctionType(_) => return,
    }
    for a in &c.lists {
        check(a, &inp.text);
    }
});
