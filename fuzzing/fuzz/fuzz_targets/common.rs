// Shared by the fuzz targets: decode libFuzzer bytes into (mode, start offset, text).
// The text mixes a token dictionary with raw UTF-8 so that the fuzzer reaches the grammar quickly.
use rustpython_parser::Mode;

pub const DICT: &[&str] = &[
    "if ", "else", "elif ", "for ", "while ", "def ", "class ", "return ", "lambda ", "match ", "case ", "type ", "async ", "await ", "with ", " as ", "try",
    "except", "finally", "import ", "from ", "not ", " and ", " or ", " in ", " is ", "None", "True", "yield ", "del ", "global ", "pass", "raise ", "assert ",
    "(", ")", "[", "]", "{", "}", ",", ":", ";", ".", "...", "=", "==", "!=", "<", ">", "<=", ">=", "+", "-", "*", "**", "/", "//", "%", "@", "&", "|", "^", "~",
    "<<", ">>", ":=", "->", "+=", "!", "$", "?", "\\", "x", "y", "foo", "_", "\u{e9}", "\u{4e2d}", "\u{1f600}", "0", "1", "0x1f", "0b2", "1_", "1e5", "1.5", "1j",
    "\"\"", "''", "\"a\"", "'a", "\"\"\"", "'''", "b'a'", "rb''", "f'{x}'", "f'{", "f'}'", "f'{x!r:>{y}}'", "'\\x4'", "'\\N{DIGIT ONE}'", "\n", "\r\n", "\r",
    "\n    ", "\n  ", "\n\t", " ", "\t", "\x0c", "#c", "\\\n", "\u{feff}", "\u{a0}", "\u{2028}", "\0",
];

pub struct Input {
    pub mode: Mode,
    pub offset: u32,
    pub text: String,
}

pub fn decode(data: &[u8]) -> Option<Input> {
    if data.len() < 3 {
        return None;
    }
    let mode = match data[0] % 3 {
        0 => Mode::Module,
        1 => Mode::Interactive,
        _ => Mode::Expression,
    };
    let mut text = String::new();
    let body = &data[2..];
    if data[0] & 0x80 != 0 {
        // raw mode: the bytes are the text
        text.push_str(&String::from_utf8_lossy(body));
    } else {
        let mut i = 0;
        while i < body.len() {
            let b = body[i];
            if b < 0xC0 {
                text.push_str(DICT[(b as usize) % DICT.len()]);
                i += 1;
            } else {
                // a raw run of up to 8 bytes
                let n = ((b & 7) as usize + 1).min(body.len() - i - 1);
                text.push_str(&String::from_utf8_lossy(&body[i + 1..i + 1 + n]));
                i += 1 + n;
            }
        }
    }
    let len = text.len() as u64;
    let offset = match data[1] % 6 {
        0 | 1 => 0u64,
        2 => 1,
        3 => 400,
        4 => 1 << 31,
        _ => (u32::MAX as u64).saturating_sub(len),
    };
    let offset = offset.min((u32::MAX as u64).saturating_sub(len)) as u32;
    Some(Input { mode, offset, text })
}

#[allow(dead_code)]
pub fn no_real_token(text: &str) -> bool {
    // text holding only blanks, line breaks, comments, joins (listed finding C03-F1 / C09-F3)
    let t = text.trim_start_matches('\u{feff}');
    let mut in_comment = false;
    for c in t.chars() {
        match c {
            '\n' | '\r' => in_comment = false,
            _ if in_comment => {}
            '#' => in_comment = true,
            ' ' | '\t' | '\x0c' | '\\' => {}
            _ => return false,
        }
    }
    true
}

#[allow(dead_code)]
pub fn too_deep(text: &str) -> bool {
    // The targets that walk the tree recursively (fold, visitor, unparse, locators, drop) run on libFuzzer's stack with
    // sanitizer-sized frames: a few thousand nested prefix operators or brackets overflow it, which is a limit of the
    // harness, not a verdict on the library (the LR parser itself is iterative; C03 feeds it such inputs). Over-estimate
    // the nesting an input can reach and leave those inputs to C03's targets.
    let openers = text.bytes().filter(|b| matches!(b, b'(' | b'[' | b'{' | b'-' | b'+' | b'~' | b'*')).count();
    let words = text.matches("not").count() + text.matches("await").count() + text.matches("lambda").count() + text.matches("if ").count() + text.matches("else").count();
    openers + words > 200
}
