#![no_main]
// C17: repr-style rendering round-trips and has Python's shape; hex round-trips; printf renderers do not panic.
use libfuzzer_sys::fuzz_target;
use rustpython_literal::float;
use rustpython_literal::format::Case;

fuzz_target!(|data: &[u8]| {
    if data.len() < 9 {
        return;
    }
    let v = f64::from_bits(u64::from_le_bytes(data[..8].try_into().unwrap()));
    let text = float::to_string(v);
    if v.is_nan() {
        assert_eq!(text, "nan", "C17 nan");
    } else if v.is_infinite() {
        assert_eq!(text, if v > 0.0 { "inf" } else { "-inf" }, "C17 inf");
    } else {
        let back = float::parse_str(&text).expect("C17 to_string output is not accepted by parse_str");
        assert_eq!(back.to_bits(), v.to_bits(), "C17 to_string does not round-trip: {text}");
        let std_back: f64 = text.parse().expect("C17 to_string output is not a float literal");
        assert_eq!(std_back.to_bits(), v.to_bits(), "C17 to_string does not round-trip (std): {text}");
        // shape: exponent notation iff decimal exponent < -4 or >= 16
        let sci = format!("{:e}", v.abs());
        let e10: i32 = sci.split('e').nth(1).unwrap().parse().unwrap();
        let want_fixed = v == 0.0 || (-4..16).contains(&e10);
        assert_eq!(!text.contains('e'), want_fixed, "C17 repr notation for {v:e}: {text}");
        if want_fixed {
            assert!(text.contains('.'), "C17 fixed repr without a decimal point: {text}");
        }
        let hex = float::to_hex(v);
        let hb = float::from_hex(&hex).expect("C17 from_hex rejects to_hex output");
        assert_eq!(hb.to_bits(), v.to_bits(), "C17 hex round-trip: {hex}");
    }
    let prec = (data[8] % 24) as usize;
    let m = v.abs();
    let _ = float::format_fixed(prec, if m > 1e40 { 1e40 } else { m }, Case::Lower, data[8] & 0x80 != 0);
    let _ = float::format_exponent(prec, m, Case::Upper, data[8] & 0x40 != 0);
    let _ = float::format_general(prec.max(1), m, Case::Lower, data[8] & 0x20 != 0, false);
    if let Ok(s) = std::str::from_utf8(&data[9..]) {
        if s.is_ascii() {
            let a = float::parse_str(s);
            let b = float::parse_bytes(s.as_bytes());
            if let (Some(x), Some(y)) = (a, b) {
                assert!(x.to_bits() == y.to_bits() || (x.is_nan() && y.is_nan()), "C17 parse_str and parse_bytes disagree on {s:?}");
            }
            let _ = float::from_hex(s);
        }
    }
});
