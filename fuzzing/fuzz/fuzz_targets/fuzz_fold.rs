#![no_main]
// C12: Fold and Visitor traverse the whole tree faithfully. In-target oracle: the identity fold returns an equal tree;
// will_map_user / map_user are called in matched pairs, once per range; the default Visitor and an independent Fold-based
// walk see the same multiset of (class, range) for statements, expressions, patterns and handlers; the constant
// optimiser is idempotent and leaves no Load-context tuple of constants behind.
mod common;
use libfuzzer_sys::fuzz_target;
use rustpython_ast::fold::Fold;
use rustpython_ast::{self as ast, Ranged, Visitor};
use rustpython_parser::parse;
use rustpython_parser::text_size::TextRange;

#[derive(Default)]
struct Walk {
    will: u64,
    mapped: u64,
    open: Vec<TextRange>,
    seen: Vec<(u8, TextRange)>,
    const_tuples: u64,
}
impl Fold<TextRange> for Walk {
    type TargetU = TextRange;
    type Error = std::convert::Infallible;
    type UserContext = usize;
    fn will_map_user(&mut self, user: &TextRange) -> usize {
        self.will += 1;
        self.open.push(*user);
        self.open.len()
    }
    fn map_user(&mut self, user: TextRange, c: usize) -> Result<TextRange, Self::Error> {
        self.mapped += 1;
        // calls are properly nested: the context handed back is the one of the innermost open node, for the same range
        assert!(c == self.open.len() && self.open.pop() == Some(user), "C12 map_user does not match its will_map_user");
        Ok(user)
    }
    fn fold_stmt(&mut self, node: ast::Stmt) -> Result<ast::Stmt, Self::Error> {
        self.seen.push((0, node.range()));
        ast::fold::fold_stmt(self, node)
    }
    fn fold_expr(&mut self, node: ast::Expr) -> Result<ast::Expr, Self::Error> {
        self.seen.push((1, node.range()));
        if let ast::Expr::Tuple(t) = &node {
            if matches!(t.ctx, ast::ExprContext::Load) && t.elts.iter().all(|e| e.is_constant_expr()) {
                self.const_tuples += 1;
            }
        }
        ast::fold::fold_expr(self, node)
    }
    fn fold_pattern(&mut self, node: ast::Pattern) -> Result<ast::Pattern, Self::Error> {
        self.seen.push((2, node.range()));
        ast::fold::fold_pattern(self, node)
    }
    fn fold_excepthandler(&mut self, node: ast::ExceptHandler) -> Result<ast::ExceptHandler, Self::Error> {
        self.seen.push((3, node.range()));
        ast::fold::fold_excepthandler(self, node)
    }
}

#[derive(Default)]
struct Visit {
    seen: Vec<(u8, TextRange)>,
}
impl Visitor for Visit {
    fn visit_stmt(&mut self, node: ast::Stmt) {
        self.seen.push((0, node.range()));
        self.generic_visit_stmt(node)
    }
    fn visit_expr(&mut self, node: ast::Expr) {
        self.seen.push((1, node.range()));
        self.generic_visit_expr(node)
    }
    fn visit_pattern(&mut self, node: ast::Pattern) {
        self.seen.push((2, node.range()));
        self.generic_visit_pattern(node)
    }
    fn visit_excepthandler(&mut self, node: ast::ExceptHandler) {
        self.seen.push((3, node.range()));
        self.generic_visit_excepthandler(node)
    }
}

fn key(x: &(u8, TextRange)) -> (u8, u32, u32) {
    (x.0, x.1.start().into(), x.1.end().into())
}

fuzz_target!(|data: &[u8]| {
    let Some(inp) = common::decode(data) else { return };
    if common::too_deep(&inp.text) {
        return;
    }
    let Ok(m) = parse(&inp.text, inp.mode, "<fuzz>") else { return };
    let mut w = Walk::default();
    let same = w.fold_mod(m.clone()).unwrap();
    assert!(same == m, "C12 identity fold changes the tree: {:?}", inp.text);
    assert!(w.will == w.mapped && w.open.is_empty(), "C12 will_map_user / map_user calls are not paired");
    let mut v = Visit::default();
    match m.clone() {
        ast::Mod::Module(x) => x.body.into_iter().for_each(|s| v.visit_stmt(s)),
        ast::Mod::Interactive(x) => x.body.into_iter().for_each(|s| v.visit_stmt(s)),
        ast::Mod::Expression(x) => v.visit_expr(*x.body),
        ast::Mod::FunctionType(_) => return,
    }
    let mut a: Vec<_> = w.seen.iter().map(key).collect();
    let mut b: Vec<_> = v.seen.iter().map(key).collect();
    a.sort();
    b.sort();
    assert!(a == b, "C12 the default Visitor and the Fold walk do not see the same nodes: {:?}", inp.text);
    // optimiser
    let mut opt = ast::ConstantOptimizer::new();
    let o1 = opt.fold_mod(m).unwrap();
    let mut w1 = Walk::default();
    let o1b = w1.fold_mod(o1.clone()).unwrap();
    assert!(w1.const_tuples == 0, "C12 the optimiser leaves a constant tuple: {:?}", inp.text);
    if w.const_tuples == 0 {
        assert!(o1b == same, "C12 the optimiser changes a tree without constant tuples: {:?}", inp.text);
    }
    let o2 = ast::ConstantOptimizer::new().fold_mod(o1.clone()).unwrap();
    assert!(o1 == o2, "C12 the optimiser is not idempotent: {:?}", inp.text);
});
