#![no_main]
// C05: the token stream tiles the source (layers 1, 2, 4 of the property check, regex-free).
mod common;
use libfuzzer_sys::fuzz_target;
use rustpython_parser::{lexer, Tok};

fn gap_ok(gap: &str, first: bool) -> bool {
    let mut s = gap;
    if first {
        s = s.strip_prefix('\u{feff}').unwrap_or(s);
    }
    let b = s.as_bytes();
    let mut i = 0;
    while i < b.len() {
        match b[i] {
            b' ' | b'\t' | 0x0c | b'\n' | b'\r' => i += 1,
            b'#' => {
                while i < b.len() && b[i] != b'\n' && b[i] != b'\r' {
                    i += 1;
                }
            }
            b'\\' => {
                if i + 1 < b.len() && (b[i + 1] == b'\n' || b[i + 1] == b'\r') {
                    i += 2;
                } else {
                    return false;
                }
            }
            _ => return false,
        }
    }
    true
}

fuzz_target!(|data: &[u8]| {
    let Some(inp) = common::decode(data) else { return };
    let text = &inp.text;
    let mut toks = vec![];
    for r in lexer::lex(text, inp.mode) {
        match r {
            Ok(t) => toks.push(t),
            Err(_) => return, // the property quantifies over texts that lex without error
        }
    }
    let mut prev_end = 0usize;
    let mut depth = 0i64;
    let mut indents = 0i64;
    for (i, (tok, range)) in toks.iter().enumerate() {
        let (a, b) = (usize::from(range.start()), usize::from(range.end()));
        assert!(a <= b && b <= text.len(), "C05 token range outside input");
        assert!(text.is_char_boundary(a) && text.is_char_boundary(b), "C05 token range not on a char boundary");
        assert!(a >= prev_end, "C05 token ranges overlap or go backwards");
        assert!(gap_ok(&text[prev_end..a], i == 0), "C05 gap holds more than whitespace/comments/joins: {:?}", &text[prev_end..a]);
        match tok {
            Tok::Name { name } => assert_eq!(name, &text[a..b], "C05 name value is not its text"),
            Tok::Lpar | Tok::Lsqb | Tok::Lbrace => depth += 1,
            Tok::Rpar | Tok::Rsqb | Tok::Rbrace => depth -= 1,
            Tok::Newline => assert!(depth <= 0, "C05 NEWLINE inside brackets"),
            Tok::Indent => indents += 1,
            Tok::Dedent => {
                indents -= 1;
                assert!(a == b, "C05 DEDENT not empty");
                assert!(indents >= 0, "C05 DEDENT without INDENT");
            }
            _ => {}
        }
        prev_end = b;
    }
    assert!(gap_ok(&text[prev_end..], toks.is_empty()), "C05 text after the last token not covered");
    assert!(indents == 0, "C05 INDENT without DEDENT at end of input");
});
