#![no_main]
// C16: repr of text / bytes decodes back (through this parser), quote rule, layout length.
use libfuzzer_sys::fuzz_target;
use rustpython_ast::Constant;
use rustpython_literal::escape::{AsciiEscape, Escape, Quote, UnicodeEscape};
use rustpython_parser::Parse;

fuzz_target!(|data: &[u8]| {
    if data.is_empty() {
        return;
    }
    if data[0] & 1 == 0 {
        let s = String::from_utf8_lossy(&data[1..]).to_string();
        let e = UnicodeEscape::new_repr(&s);
        let text = e.str_repr().to_string().expect("C16 layout length overflow on a small input");
        let q = if s.contains('\'') && !s.contains('"') { Quote::Double } else { Quote::Single };
        assert!(e.layout().quote == q, "C16 quote choice");
        assert_eq!(e.layout().len, Some(text.len() - 2), "C16 layout length != body length");
        assert_eq!(e.changed(), text[1..text.len() - 1] != s, "C16 changed()");
        match Constant::parse(&text, "<fuzz>") {
            Ok(Constant::Str(back)) => assert_eq!(back, s, "C16 repr decodes to another string: {text}"),
            other => panic!("C16 repr is not a string literal for this parser: {text} -> {other:?}"),
        }
    } else {
        let b = &data[1..];
        let e = AsciiEscape::new_repr(b);
        let text = e.bytes_repr().to_string().expect("C16 layout length overflow on a small input");
        assert_eq!(e.layout().len, Some(text.len() - 3), "C16 bytes layout length != body length");
        assert!(text.is_ascii(), "C16 bytes repr not ASCII");
        match Constant::parse(&text, "<fuzz>") {
            Ok(Constant::Bytes(back)) => assert_eq!(back, b, "C16 bytes repr decodes to other bytes: {text}"),
            other => panic!("C16 bytes repr is not a bytes literal for this parser: {text} -> {other:?}"),
        }
    }
});
