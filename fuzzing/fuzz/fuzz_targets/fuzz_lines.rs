#![no_main]
// C15: LineIndex / SourceCode / UniversalNewlineIterator against a naive character-loop model.
use libfuzzer_sys::fuzz_target;
use rustpython_parser_vendored::source_location::newlines::UniversalNewlineIterator;
use rustpython_parser_vendored::source_location::{LineIndex, OneIndexed, SourceCode};
use rustpython_parser_vendored::text_size::TextSize;

const ALPHA: &[&str] = &["\n", "\r", "\r\n", "\u{feff}", "a", "\u{e9}", "\u{1f600}", " ", "#", "\u{2028}"];

fuzz_target!(|data: &[u8]| {
    if data.len() < 2 {
        return;
    }
    let mut text = String::new();
    for b in &data[1..] {
        text.push_str(ALPHA[(*b as usize) % ALPHA.len()]);
    }
    // naive model: line starts by a character loop
    let bytes = text.as_bytes();
    let mut starts = vec![0usize];
    let mut i = 0;
    while i < bytes.len() {
        if bytes[i] == b'\r' {
            if i + 1 < bytes.len() && bytes[i + 1] == b'\n' {
                i += 1;
            }
            starts.push(i + 1);
        } else if bytes[i] == b'\n' {
            starts.push(i + 1);
        }
        i += 1;
    }
    let index = LineIndex::from_source_text(&text);
    let code = SourceCode::new(&text, &index);
    assert_eq!(code.line_count(), starts.len(), "C15 line count");
    let bom = text.starts_with('\u{feff}');
    for (off, _) in text.char_indices().chain(std::iter::once((text.len(), ' '))) {
        let row = starts.iter().filter(|s| **s <= off).count();
        let ls = starts[row - 1];
        let mut col = text[ls..off].chars().count();
        if bom && row == 1 && off >= 3 {
            col -= 1;
        }
        let loc = code.source_location(TextSize::from(off as u32));
        assert_eq!((loc.row.get() as usize, loc.column.get() as usize), (row, col + 1), "C15 source_location at {off} of {text:?}");
        assert_eq!(code.line_index(TextSize::from(off as u32)).get() as usize, row, "C15 line_index");
    }
    let mut acc = String::new();
    for (n, s) in starts.iter().enumerate() {
        let line = OneIndexed::new(n as u32 + 1).unwrap();
        let e = starts.get(n + 1).copied().unwrap_or(text.len());
        assert_eq!(usize::from(code.line_start(line)), *s, "C15 line_start");
        assert_eq!(usize::from(code.line_end(line)), e, "C15 line_end");
        acc.push_str(code.line_text(line));
    }
    assert_eq!(acc, text, "C15 lines do not partition the text");
    // iterator history chosen by the first byte: both ends alternately
    let mut model: std::collections::VecDeque<(usize, &str)> = starts
        .iter()
        .enumerate()
        .map(|(n, s)| (*s, &text[*s..starts.get(n + 1).copied().unwrap_or(text.len())]))
        .filter(|(_, t)| !t.is_empty())
        .collect();
    let mut it = UniversalNewlineIterator::from(&text);
    let mut bits = data[0];
    for _ in 0..(starts.len() + 2) {
        let front = bits & 1 == 0;
        bits = bits.rotate_right(1);
        let (got, exp) = if front { (it.next(), model.pop_front()) } else { (it.next_back(), model.pop_back()) };
        match (got, exp) {
            (None, None) => {}
            (Some(l), Some((s, t))) => {
                assert_eq!(l.as_full_str(), t, "C15 iterator line text");
                assert_eq!(usize::from(l.start()), s, "C15 iterator line offset");
            }
            (g, e) => panic!("C15 iterator yields {:?}, model {:?}", g.map(|l| l.as_full_str().to_string()), e),
        }
    }
});
