#![no_main]
// C02: ranges are the exact source extent - the structural half, which needs no reference: every range lies inside the
// input on character boundaries, start <= end, every node lies inside its parent, a Name's text is its identifier and an
// Attribute's text ends with its attribute name. (Equality with CPython's extents is the Hypothesis tier's part.)
// Listed finding C02-F6 (CRLF inside an f-string shifts the ranges of its fields) is excluded by construction.
mod common;
use libfuzzer_sys::fuzz_target;
use rustpython_ast::fold::Fold;
use rustpython_ast::{self as ast};
use rustpython_parser::parse_starts_at;
use rustpython_parser::text_size::{TextRange, TextSize};

struct Check<'a> {
    src: &'a str,
    k: u32,
    open: Vec<(TextRange, bool)>,
    next_is_decorated: bool,
    in_fstring: u32,
    crlf: bool,
}
impl<'a> Check<'a> {
    fn text(&self, r: TextRange) -> Option<&'a str> {
        let (a, b) = ((u32::from(r.start()) - self.k) as usize, (u32::from(r.end()) - self.k) as usize);
        self.src.get(a..b)
    }
    fn listed(&self) -> bool {
        self.in_fstring > 0 && self.crlf
    }
}
impl<'a> Fold<TextRange> for Check<'a> {
    type TargetU = TextRange;
    type Error = std::convert::Infallible;
    type UserContext = ();
    fn will_map_user(&mut self, user: &TextRange) {
        let (a, b) = (u32::from(user.start()) as u64, u32::from(user.end()) as u64);
        let (lo, hi) = (self.k as u64, self.k as u64 + self.src.len() as u64);
        if !self.listed() {
            assert!(lo <= a && a <= b && b <= hi, "C02 range {:?} outside the input [{}, {}] of {:?}", user, lo, hi, self.src);
            assert!(self.src.is_char_boundary((a - lo) as usize) && self.src.is_char_boundary((b - lo) as usize), "C02 range {:?} not on character boundaries: {:?}", user, self.src);
            if let Some((p, decorated)) = self.open.last() {
                // (decorators come before the `def` / `class` keyword, where the statement's range starts - as in the reference)
                let decorator = *decorated && user.end() <= p.start();
                assert!(decorator || p.contains_range(*user), "C02 node {:?} not inside its parent {:?}: {:?}", user, p, self.src);
            }
        }
        let d = std::mem::take(&mut self.next_is_decorated);
        self.open.push((*user, d));
    }
    fn map_user(&mut self, user: TextRange, _c: ()) -> Result<TextRange, Self::Error> {
        self.open.pop();
        Ok(user)
    }
    fn fold_stmt_function_def(&mut self, node: ast::StmtFunctionDef) -> Result<ast::StmtFunctionDef, Self::Error> {
        self.next_is_decorated = true;
        ast::fold::fold_stmt_function_def(self, node)
    }
    fn fold_stmt_async_function_def(&mut self, node: ast::StmtAsyncFunctionDef) -> Result<ast::StmtAsyncFunctionDef, Self::Error> {
        self.next_is_decorated = true;
        ast::fold::fold_stmt_async_function_def(self, node)
    }
    fn fold_stmt_class_def(&mut self, node: ast::StmtClassDef) -> Result<ast::StmtClassDef, Self::Error> {
        self.next_is_decorated = true;
        ast::fold::fold_stmt_class_def(self, node)
    }
    fn fold_expr_joined_str(&mut self, node: ast::ExprJoinedStr) -> Result<ast::ExprJoinedStr, Self::Error> {
        self.in_fstring += 1;
        let r = ast::fold::fold_expr_joined_str(self, node);
        self.in_fstring -= 1;
        r
    }
    fn fold_expr_name(&mut self, node: ast::ExprName) -> Result<ast::ExprName, Self::Error> {
        if !self.listed() {
            let t = self.text(node.range);
            assert!(t == Some(node.id.as_str()), "C02 Name {:?} has the text {:?}: {:?}", node.id.as_str(), t, self.src);
        }
        ast::fold::fold_expr_name(self, node)
    }
    fn fold_expr_attribute(&mut self, node: ast::ExprAttribute) -> Result<ast::ExprAttribute, Self::Error> {
        if !self.listed() {
            let t = self.text(node.range);
            assert!(matches!(t, Some(t) if t.ends_with(node.attr.as_str())), "C02 Attribute .{} has the text {:?}: {:?}", node.attr.as_str(), t, self.src);
        }
        ast::fold::fold_expr_attribute(self, node)
    }
}

fuzz_target!(|data: &[u8]| {
    let Some(inp) = common::decode(data) else { return };
    if common::too_deep(&inp.text) {
        return;
    }
    let Ok(m) = parse_starts_at(&inp.text, inp.mode, "<fuzz>", TextSize::from(inp.offset)) else { return };
    let mut c = Check { src: &inp.text, k: inp.offset, open: Vec::new(), next_is_decorated: false, in_fstring: 0, crlf: inp.text.contains("\r\n") };
    let _ = c.fold_mod(m).unwrap();
});
