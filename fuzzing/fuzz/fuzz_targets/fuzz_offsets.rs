#![no_main]
// C09: parse_starts_at(t, k) == parse(t) with every range and error offset moved by k.
mod common;
use libfuzzer_sys::fuzz_target;
use rustpython_ast::fold::Fold;
use rustpython_parser::text_size::{TextRange, TextSize};
use rustpython_parser::{parse, parse_starts_at};

struct Shift(TextSize);
impl Fold<TextRange> for Shift {
    type TargetU = TextRange;
    type Error = std::convert::Infallible;
    type UserContext = ();
    fn will_map_user(&mut self, _user: &TextRange) {}
    fn map_user(&mut self, user: TextRange, _c: ()) -> Result<TextRange, Self::Error> {
        Ok(user + self.0)
    }
}

fuzz_target!(|data: &[u8]| {
    let Some(inp) = common::decode(data) else { return };
    if common::too_deep(&inp.text) {
        return;
    }
    if inp.offset == 0 {
        return;
    }
    let k = TextSize::from(inp.offset);
    let base = parse(&inp.text, inp.mode, "<fuzz>");
    let moved = parse_starts_at(&inp.text, inp.mode, "<fuzz>", k);
    match (base, moved) {
        (Ok(a), Ok(b)) => {
            let shifted = Shift(k).fold_mod(a).unwrap();
            assert!(shifted == b, "C09 tree parsed at offset k differs from the shifted tree");
        }
        (Err(a), Err(b)) => {
            assert!(a.error == b.error, "C09 error kind depends on the start offset");
            if u32::from(a.offset) + inp.offset != u32::from(b.offset) {
                // listed finding C09-F3: before any real token the error keeps offset 0
                assert!(u32::from(b.offset) == 0 && common::no_real_token(&inp.text), "C09 error offset not moved by k");
            }
        }
        _ => panic!("C09 acceptance depends on the start offset"),
    }
});
