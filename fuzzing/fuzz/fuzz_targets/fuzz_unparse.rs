#![no_main]
// C11: unparse / parse round trip. In-target oracle: the rendering of a parsed expression parses again, to the same
// tree up to ranges (and the `u` kind, listed finding C11-F2), and renders to the same text a second time.
// Listed finding C11-F1 (a string inside a replacement field is escaped together with the f-string body) is excluded
// by construction: such inputs only have to stay panic-free. So is C11-F3 (a format spec whose text the unparser has
// to escape: the parser keeps spec escapes verbatim, C07-F1).
mod common;
use libfuzzer_sys::fuzz_target;
use rustpython_ast::fold::Fold;
use rustpython_ast::{self as ast, Constant};
use rustpython_parser::text_size::TextRange;
use rustpython_parser::Parse;

#[derive(Default)]
struct Erase {
    in_field: u32,
    in_spec: u32,
    string_in_field: bool,
}
impl Fold<TextRange> for Erase {
    type TargetU = ();
    type Error = std::convert::Infallible;
    type UserContext = ();
    fn will_map_user(&mut self, _user: &TextRange) {}
    fn map_user(&mut self, _user: TextRange, _c: ()) -> Result<(), Self::Error> {
        Ok(())
    }
    fn fold_expr_constant(&mut self, mut node: ast::ExprConstant<TextRange>) -> Result<ast::ExprConstant<()>, Self::Error> {
        if self.in_field > 0 && matches!(node.value, Constant::Str(_) | Constant::Bytes(_)) {
            self.string_in_field = true;
        }
        if self.in_spec > 0 {
            if let Constant::Str(s) = &node.value {
                if s.chars().any(|c| c == '\\' || c == '\'' || c == '"' || !(' '..='~').contains(&c)) {
                    self.string_in_field = true; // (same flag: the input lies in a listed finding's region)
                }
            }
        }
        node.kind = None;
        ast::fold::fold_expr_constant(self, node)
    }
    fn fold_expr_joined_str(&mut self, node: ast::ExprJoinedStr<TextRange>) -> Result<ast::ExprJoinedStr<()>, Self::Error> {
        if self.in_field > 0 {
            self.string_in_field = true;
        }
        if self.in_spec > 0 {
            // listed finding C07-F2 (seen from C11): a self-documenting field inside a nested format spec leaves text pieces
            // that are not merged (or empty) in the parsed tree; rendering and parsing again merges them
            let consts: Vec<bool> = node.values.iter().map(|v| matches!(v, ast::Expr::Constant(_))).collect();
            let empty = node.values.iter().any(|v| matches!(v, ast::Expr::Constant(c) if matches!(&c.value, Constant::Str(s) if s.is_empty())));
            if empty || consts.windows(2).any(|w| w[0] && w[1]) {
                self.string_in_field = true; // (same flag: the input lies in a listed finding's region)
            }
        }
        ast::fold::fold_expr_joined_str(self, node)
    }
    fn fold_expr_formatted_value(&mut self, node: ast::ExprFormattedValue<TextRange>) -> Result<ast::ExprFormattedValue<()>, Self::Error> {
        let ast::ExprFormattedValue { value, conversion, format_spec, range: _ } = node;
        self.in_field += 1;
        let value = Box::new(self.fold_expr(*value)?);
        self.in_field -= 1;
        self.in_spec += 1;
        let format_spec = match format_spec {
            Some(f) => Some(Box::new(self.fold_expr(*f)?)),
            None => None,
        };
        self.in_spec -= 1;
        Ok(ast::ExprFormattedValue { value, conversion, format_spec, range: () })
    }
}

fuzz_target!(|data: &[u8]| {
    let Some(inp) = common::decode(data) else { return };
    if common::too_deep(&inp.text) {
        return;
    }
    let Ok(e) = ast::Expr::parse(&inp.text, "<fuzz>") else { return };
    let text = format!("{}", e);
    let mut er = Erase::default();
    let a = er.fold_expr(e).unwrap();
    let listed = er.string_in_field;
    let e2 = match ast::Expr::parse(&text, "<fuzz>") {
        Ok(x) => x,
        Err(err) => {
            if listed {
                return;
            }
            panic!("C11 rendering does not parse: {:?} -> {:?}: {}", inp.text, text, err)
        }
    };
    let text2 = format!("{}", e2);
    let b = Erase::default().fold_expr(e2).unwrap();
    if a != b {
        if listed {
            return;
        }
        panic!("C11 round trip changes the tree: {:?} -> {:?}", inp.text, text);
    }
    assert!(text2 == text, "C11 rendering is not a fixed point: {:?} -> {:?} -> {:?}", inp.text, text, text2);
});
