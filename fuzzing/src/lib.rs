// parent crate required by cargo-fuzz; the targets live in fuzz/
